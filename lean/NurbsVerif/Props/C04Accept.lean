/-
Props/C04Accept.lean — property C04, "a valid request is accepted": for a polynomial model curve on a well-formed
vector, nodes strictly inside the interval whose final multiplicities stay within `degree + 1` (old and new knot values
separated), `knot_insert(nodes)` succeeds — and by `C04_insert_preserves_eval` the curve it returns is the same function.
-/
import NurbsVerif.Proofs.InsertProgress
import NurbsVerif.Props.C05Round

namespace NV

theorem interiorNodes_eq_self (k : KV) (nodes : List Rat) (hwf : WF k.v k.deg)
    (hin : ∀ x ∈ nodes, k.umin < x ∧ x < k.umax) : interiorNodes k nodes = nodes := by
  have hfirst : nth k.v 0 = k.umin := (umin_eq_first k.v k.deg hwf).symm
  have hlast : k.v.getLastD 0 = k.umax := by
    have := umax_eq_last k.v k.deg hwf; unfold KV.umax KV.npts; exact this.symm
  unfold interiorNodes
  rw [List.filter_eq_self]
  intro y hy
  obtain ⟨h1, h2⟩ := hin y hy
  have n1 : ¬ y = nth k.v 0 := by rw [hfirst]; exact ne_of_gt h1
  have n2 : ¬ y = k.v.getLastD 0 := by rw [hlast]; exact ne_of_lt h2
  simp only [Bool.and_eq_true, Bool.not_eq_true', beq_eq_false_iff_ne, ne_eq]
  exact ⟨n1, n2⟩

/-- **C04 (valid requests are accepted).** -/
theorem C04_valid_accepted (c : Curve) (nodes : List Rat) (pts : List Vec)
    (hP : c.P = some pts) (hW : c.W = none) (hlen : pts.length = c.kv.npts)
    (hwf : WF c.kv.v c.kv.deg) (hsep : Separated (c.kv.v ++ nodes))
    (hin : ∀ x ∈ nodes, c.kv.umin < x ∧ x < c.kv.umax)
    (hmult : ∀ x ∈ nodes, cnt c.kv.v x + cnt nodes x ≤ c.kv.deg + 1) :
    ∃ c', c.knotInsert nodes = .ok c' := by
  obtain ⟨m, hm⟩ := knotInsertMat_ok c.kv nodes hwf hsep
    (fun x hx => ⟨le_of_lt (hin x hx).1, le_of_lt (hin x hx).2⟩) (fun x hx _ _ => hmult x hx)
  obtain ⟨kf, hrep, hwff, hkfv⟩ := knotInsertMat_reached c.kv nodes m hwf hsep hm
  rw [interiorNodes_eq_self c.kv nodes hwf hin] at hkfv
  -- `knotvector + nodes` is that vector
  have hvn : c.kv.validNodes nodes = true := by
    simp only [KV.validNodes, List.all_eq_true, KV.validNode, Bool.not_eq_true', Bool.or_eq_false_iff,
      decide_eq_false_iff_not, not_lt]
    intro x hx
    exact ⟨le_of_lt (hin x hx).1, le_of_lt (hin x hx).2⟩
  have hins : c.kv.insert nodes = .ok kf := by
    unfold KV.insert
    rw [hvn]
    simp only [Bool.not_true, Bool.false_eq_true, if_false]
    rw [← hkfv]
    exact mk?_self kf hwff
  have hdeg : (kf.deg != c.kv.deg) = false := by simp [hrep.deg]
  unfold Curve.knotInsert
  simp only [bind, Except.bind, hins, hdeg, Bool.false_eq_true, if_false, hm]
  unfold Curve.apply
  rw [hP, hW]
  simp only [Option.map_some]
  unfold Curve.mk?
  have hl : ((matPts m pts).length != kf.npts) = false := by simp [matPts, hrep.shaped.1]
  simp only [hl, Bool.false_eq_true, if_false]
  exact ⟨_, rfl⟩

end NV
