/-
Props/C10.lean — property C10: quadrature rules are exact to their order; the memo tables do not
change an answer; spline integrals.
-/
import NurbsVerif.Proofs.Quad
import NurbsVerif.Proofs.Decide

namespace NV

/-- the closed Newton–Cotes rule of size `n` as the model computes it satisfies the `n` moment conditions -/
def closedOK (n : Nat) : Bool :=
  match closedRule? n with
  | some w => momentsOK w (closedLinspace n) n && (w.length == n)
  | none => false

def openOK (n : Nat) : Bool :=
  match openRule? n with
  | some w => momentsOK w (openLinspace n) n && (w.length == n)
  | none => false

/-- kernel evaluation of the model's own weight computation (Bernstein collocation, Gauss–Jordan
inverse, row sums) for every size in the stated bound; `decide +kernel` adds no axiom -/
theorem closed_moments_upto_16 : ((List.range 15).all fun i => closedOK (i + 2)) = true := by
  decide +kernel

theorem open_moments_upto_16 : ((List.range 16).all fun i => openOK (i + 1)) = true := by
  decide +kernel

/-- **C10 (closed Newton–Cotes).**  For every size `2 ≤ n ≤ 16` the rule integrates every polynomial of
degree `< n` over `[0, 1]` exactly. -/
theorem C10_closed_exact (n : Nat) (h2 : 2 ≤ n) (h16 : n ≤ 16) (w : List Rat) (hw : closedRule? n = some w)
    (p : Poly) (hp : p.length ≤ n) :
    quad w (closedLinspace n) (horner p) = pintegral p 0 1 := by
  have hall := closed_moments_upto_16
  simp only [List.all_eq_true, List.mem_range] at hall
  have := hall (n - 2) (by omega)
  have e : n - 2 + 2 = n := by omega
  rw [e] at this
  simp only [closedOK, hw, Bool.and_eq_true] at this
  exact quad_exact_of_moments w _ n (moments_of_check w _ n this.1) p hp

/-- **C10 (open Newton–Cotes).**  Same for the open family, `1 ≤ n ≤ 16`. -/
theorem C10_open_exact (n : Nat) (h1 : 1 ≤ n) (h16 : n ≤ 16) (w : List Rat) (hw : openRule? n = some w)
    (p : Poly) (hp : p.length ≤ n) :
    quad w (openLinspace n) (horner p) = pintegral p 0 1 := by
  have hall := open_moments_upto_16
  simp only [List.all_eq_true, List.mem_range] at hall
  have := hall (n - 1) (by omega)
  have e : n - 1 + 1 = n := by omega
  rw [e] at this
  simp only [openOK, hw, Bool.and_eq_true] at this
  exact quad_exact_of_moments w _ n (moments_of_check w _ n this.1) p hp

/-- **C10 (any nodes).**  Whatever the nodes (Chebyshev, Gauss, …), weights that satisfy the moment
conditions integrate every polynomial of the corresponding degree exactly. -/
theorem C10_exact_of_moments (ws xs : List Rat) (n : Nat)
    (hmom : ∀ k, k < n → quad ws xs (fun x => rpow x k) = 1 / ((k : Rat) + 1))
    (p : Poly) (hp : p.length ≤ n) : quad ws xs (horner p) = pintegral p 0 1 :=
  quad_exact_of_moments ws xs n hmom p hp

/-- the literal initial contents of the memo dictionaries are the freshly computed rules -/
theorem C10_init_memo_good : GoodMemo QuadMemo.init := by
  constructor
  · intro n w hl hn
    simp only [QuadMemo.init, lookup_cons] at hl
    split at hl
    · rename_i e; subst e; simp only [Option.some.injEq] at hl; subst hl; decide +kernel
    · split at hl
      · rename_i e; subst e; simp only [Option.some.injEq] at hl; subst hl; decide +kernel
      · split at hl
        · rename_i e; subst e; simp only [Option.some.injEq] at hl; subst hl; decide +kernel
        · simp [lookup] at hl
  · intro n w hl hn
    simp only [QuadMemo.init, lookup_cons] at hl
    split at hl
    · rename_i e; subst e; simp only [Option.some.injEq] at hl; subst hl; decide +kernel
    · split at hl
      · rename_i e; subst e; simp only [Option.some.injEq] at hl; subst hl; decide +kernel
      · split at hl
        · rename_i e; subst e; simp only [Option.some.injEq] at hl; subst hl; decide +kernel
        · simp [lookup] at hl

/-- one request of either family, as an operation of the memo state machine -/
inductive QReq where
  | closed (n : Nat)
  | opened (n : Nat)

def qstep (m : QuadMemo) : QReq → Option (List Rat × QuadMemo)
  | .closed n => closedNC m n
  | .opened n => openNC m n

def qfresh : QReq → Option (List Rat)
  | .closed n => closedRule? n
  | .opened n => openRule? n

/-- run a request history, collecting the answers -/
def qrun : QuadMemo → List QReq → List (Option (List Rat))
  | _, [] => []
  | m, r :: rs =>
    match qstep m r with
    | some (w, m') => some w :: qrun m' rs
    | none => none :: qrun m rs

/-- **C10 (history independence).**  After *any* sequence of earlier requests, every answered request
returns exactly the freshly computed rule: the answer does not depend on which rules or sizes
were requested before. -/
theorem C10_history_independent (rs : List QReq) :
    ∀ m, GoodMemo m → ∀ i (h : i < rs.length) w, (qrun m rs)[i]? = some (some w) → qfresh rs[i] = some w := by
  induction rs with
  | nil => intro m _ i h; simp at h
  | cons r rs ih =>
    intro m hm i h w hw
    cases hq : qstep m r with
    | none =>
      simp only [qrun, hq] at hw
      cases i with
      | zero => simp at hw
      | succ i => exact ih m hm i (by simpa using h) w (by simpa using hw)
    | some wm =>
      obtain ⟨w0, m'⟩ := wm
      simp only [qrun, hq] at hw
      have hspec : qfresh r = some w0 ∧ GoodMemo m' := by
        cases r with
        | closed n => exact closedNC_spec m hm n w0 m' hq
        | opened n => exact openNC_spec m hm n w0 m' hq
      cases i with
      | zero =>
        simp only [List.getElem?_cons_zero, Option.some.injEq] at hw
        subst hw
        simpa using hspec.1
      | succ i => exact ih m' hspec.2 i (by simpa using h) w (by simpa using hw)

/-- **C10 (spline integral, per span).**  The default exact rule (`p + 1` open nodes on every span, `p ≤ 15`)
applied to the polynomial of a span returns that polynomial's exact integral over the span; summing
over the spans is what `rf.integral` (and `Integrate.scalar`) return. -/
theorem C10_span_integral (n : Nat) (h1 : 1 ≤ n) (h16 : n ≤ 16) (w : List Rat) (hw : openRule? n = some w)
    (q : Poly) (hq : q.length ≤ n) (a b : Rat) :
    (b - a) * quad w (openLinspace n) (fun x => horner q (a + (b - a) * x))
      = (b - a) * pintegral (pcompLin q a (b - a)) 0 1 := by
  congr 1
  have hc : (fun x => horner q (a + (b - a) * x)) = horner (pcompLin q a (b - a)) := by
    funext x; rw [horner_pcompLin]
  rw [hc]
  apply C10_open_exact n h1 h16 w hw
  -- composition with a linear map does not raise the number of coefficients
  have len_padd : ∀ p r : Poly, (padd p r).length = max p.length r.length := by
    intro p
    induction p with
    | nil => intro r; simp
    | cons x p ih => intro r; cases r with
      | nil => simp
      | cons y r => simp [padd, ih r]
  have len_comp : ∀ q : Poly, (pcompLin q a (b - a)).length ≤ q.length := by
    intro q
    induction q with
    | nil => simp [pcompLin]
    | cons c cs ih =>
      simp only [pcompLin, pmulLin, len_padd, pscale, List.length_map, List.length_cons, List.length_nil]
      omega
  exact le_trans (len_comp q) hq

end NV
