/-
Props/C04Eval.lean — property C04, the functional part: **knot insertion never changes the curve**, proved for the
model's `Curve.knotInsert` with any node list (repeated nodes, several nodes, all degrees and multiplicity patterns)
on polynomial curves: after an accepted insertion the curve evaluates to the same point at every parameter.
-/
import NurbsVerif.Proofs.InsertMat
import NurbsVerif.Props.C01
import NurbsVerif.Props.C04

namespace NV
open Finset

theorem not_mem_of_cnt_zero (l : List Rat) (x : Rat) (h : cnt l x = 0) : x ∉ l := by
  rw [cnt_eq_count] at h
  exact List.count_eq_zero.mp h

theorem mem_nth_bounds (l : List Rat) (hs : sortedLE l = true) (y : Rat) (hy : y ∈ l) :
    nth l 0 ≤ y ∧ y ≤ nth l (l.length - 1) := by
  obtain ⟨i, hi, rfl⟩ := List.mem_iff_getElem.mp hy
  have hm := mono_of_sortedLE l hs
  rw [← nth_eq_getElem l i hi]
  exact ⟨hm 0 i (by omega) (by omega), hm i (l.length - 1) (by omega) (le_refl _)⟩

theorem nth_mem (l : List Rat) (i : Nat) (hi : i < l.length) : nth l i ∈ l := by
  rw [nth_eq_getElem l i hi]; exact List.getElem_mem hi

/-- an accepted `knot_insert` request contains no end knot (it would change the degree or be invalid) -/
theorem accepted_nodes_interior (k newk : KV) (nodes : List Rat) (hwf : WF k.v k.deg)
    (hins : k.insert nodes = .ok newk) (hdeg : newk.deg = k.deg) :
    interiorNodes k nodes = nodes := by
  unfold KV.insert at hins
  split at hins
  · cases hins
  · rename_i hvalid
    obtain ⟨hval, hv, hd⟩ := mk?_ok _ _ hins
    have hposU : 0 < k.v.length := by have := hwf.npts_gt; omega
    have hsorted' : sortedLE newk.v = true := by rw [hv]; exact sortedLE_isort _
    have hfirstU : nth k.v 0 = k.umin := (umin_eq_first k.v k.deg hwf).symm
    have hlastU : k.v.getLastD 0 = k.umax := by
      have := umax_eq_last k.v k.deg hwf
      unfold KV.umax KV.npts; exact this.symm
    have hnodes : ∀ y ∈ nodes, k.umin ≤ y ∧ y ≤ k.umax := by
      intro y hy
      have hvn : k.validNodes nodes = true := by simpa using hvalid
      have := (List.all_eq_true.mp hvn) y hy
      simp only [KV.validNode, Bool.not_eq_true', Bool.or_eq_false_iff, decide_eq_false_iff_not, not_lt] at this
      exact this
    have hall : ∀ y ∈ newk.v, nth k.v 0 ≤ y ∧ y ≤ k.v.getLastD 0 := by
      intro y hy
      rw [hv, mem_isort, List.mem_append] at hy
      rcases hy with hy | hy
      · have := mem_nth_bounds k.v hwf.sorted y hy
        rw [getLastD_eq_nth k.v hposU]; exact this
      · rw [hfirstU, hlastU]; exact hnodes y hy
    have hpos' : 0 < newk.v.length := by rw [hv, length_isort]; simp; omega
    have hfin : nth k.v 0 ∈ newk.v := by rw [hv, mem_isort]; simp [nth_mem k.v 0 hposU]
    have hlin : k.v.getLastD 0 ∈ newk.v := by
      rw [hv, mem_isort, getLastD_eq_nth k.v hposU]; simp [nth_mem k.v (k.v.length - 1) (by omega)]
    have hhead : nth newk.v 0 = nth k.v 0 :=
      le_antisymm (mem_nth_bounds newk.v hsorted' _ hfin).1 (hall _ (nth_mem newk.v 0 hpos')).1
    have hlast : nth newk.v (newk.v.length - 1) = k.v.getLastD 0 :=
      le_antisymm (hall _ (nth_mem newk.v _ (by omega))).2 (mem_nth_bounds newk.v hsorted' _ hlin).2
    -- counts
    have hcf : cnt newk.v (nth k.v 0) = k.deg + 1 + cnt nodes (nth k.v 0) := by
      rw [hv, cnt_isort, cnt_append]
      have := hwf.first; rw [headD_eq_nth] at this; rw [this]
    have hcl : cnt newk.v (k.v.getLastD 0) = k.deg + 1 + cnt nodes (k.v.getLastD 0) := by
      rw [hv, cnt_isort, cnt_append, hwf.last]
    obtain ⟨_, _, hl', _⟩ := isValid_core _ hval
    rw [← hv] at hl' hd
    rw [headD_eq_nth, hhead] at hd hl'
    rw [getLastD_eq_nth newk.v hpos', hlast] at hl'
    have h1 : cnt nodes (nth k.v 0) = 0 := by omega
    have h2 : cnt nodes (k.v.getLastD 0) = 0 := by omega
    unfold interiorNodes
    rw [List.filter_eq_self]
    intro y hy
    have n1 : ¬ y = nth k.v 0 := fun e => not_mem_of_cnt_zero _ _ h1 (e ▸ hy)
    have n2 : ¬ y = k.v.getLastD 0 := fun e => not_mem_of_cnt_zero _ _ h2 (e ▸ hy)
    simp only [Bool.and_eq_true, Bool.not_eq_true', beq_eq_false_iff_ne, ne_eq]
    exact ⟨n1, n2⟩

theorem coordCol_matPts (m : Mat) (pts : List Vec) (d r n : Nat) (hm : Shaped m r n) (hlen : pts.length = n) (hn : 0 < n)
    (hd : ∀ p ∈ pts, p.length = d) (j : Nat) :
    coordCol (matPts m pts) j = matVec m (coordCol pts j) := by
  unfold coordCol matPts matVec
  rw [List.map_map]
  apply List.map_congr_left
  intro row hrow
  have hr : row.length = pts.length := by rw [hm.2 row hrow, hlen]
  exact (lincomb_spec row pts d hr (by omega) hd).2 j

theorem matPts_dims (m : Mat) (pts : List Vec) (d r n : Nat) (hm : Shaped m r n) (hlen : pts.length = n) (hn : 0 < n)
    (hd : ∀ p ∈ pts, p.length = d) : ∀ q ∈ matPts m pts, q.length = d := by
  intro q hq
  unfold matPts at hq
  obtain ⟨row, hrow, rfl⟩ := List.mem_map.mp hq
  have hr : row.length = pts.length := by rw [hm.2 row hrow, hlen]
  exact (lincomb_spec row pts d hr (by omega) hd).1

/-- **C04 (the curve is unchanged), polynomial curves.**  For every well-formed knot vector, every node list (any
number of nodes, repeated nodes, nodes equal to existing knots) such that the old and the new knot values are
separated, and control points of a common dimension: if `knot_insert(nodes)` is accepted, the new curve takes the
same value as the old one at **every** parameter of the interval. -/
theorem C04_insert_preserves_eval (c c' : Curve) (nodes : List Rat) (pts : List Vec) (d : Nat)
    (hP : c.P = some pts) (hW : c.W = none) (hlen : pts.length = c.kv.npts) (hdim : ∀ p ∈ pts, p.length = d)
    (hwf : WF c.kv.v c.kv.deg) (hsep : Separated (c.kv.v ++ nodes))
    (h : c.knotInsert nodes = .ok c') (u : Rat) (hu : c.kv.umin ≤ u ∧ u ≤ c.kv.umax) :
    c'.eval u = c.eval u := by
  unfold Curve.knotInsert at h
  simp only [bind, Except.bind] at h
  split at h
  · cases h
  · rename_i newk hins
    split at h
    · cases h
    · rename_i hdeg
      simp only [bne_iff_ne, ne_eq, Decidable.not_not] at hdeg
      split at h
      · cases h
      · rename_i m hm
        obtain ⟨kf, hrep, hwff, hkfv⟩ := knotInsertMat_reached c.kv nodes m hwf hsep hm
        rw [accepted_nodes_interior c.kv newk nodes hwf hins hdeg] at hkfv
        have hnewv : newk.v = isort (c.kv.v ++ nodes) := by
          unfold KV.insert at hins
          split at hins
          · cases hins
          · exact (mk?_ok _ _ hins).2.1
        have hkf : kf = newk := by
          cases kf; cases newk
          simp only at hkfv hnewv hdeg
          have := hrep.deg
          simp only at this
          simp [hkfv, hnewv, this, hdeg]
        subst hkf
        -- the new curve
        have hc' : c' = ⟨kf, some (matPts m pts), none⟩ := by
          unfold Curve.apply at h
          rw [hP, hW] at h
          simp only [Option.map_some] at h
          exact (mk?_spec _ _ _ _ h).1
        have hn0 : 0 < c.kv.npts := by have := hwf.npts_gt; unfold KV.npts; omega
        have hsepU : Separated c.kv.v := separated_of_subset _ _ hsep (fun y hy => by simp [hy])
        have hsepK : Separated kf.v := by
          apply separated_of_subset _ _ hsep
          intro y hy; rw [hkfv, mem_isort] at hy; exact hy
        rw [hc']
        rw [C01_eval_eq_def_WF ⟨kf, some (matPts m pts), none⟩ (matPts m pts) u rfl hwff hsepK
            (by rw [hrep.umin, hrep.umax]; exact hu) (by intro ws hws; cases hws),
          C01_eval_eq_def_WF c pts u hP hwf hsepU hu (by intro ws hws; rw [hW] at hws; cases hws)]
        congr 1
        rw [hW]
        unfold curveDef
        simp only []
        have hrow' : (cdbRow kf.v kf.umax kf.npts kf.deg u).length = (matPts m pts).length := by
          simp [cdbRow, matPts, hrep.shaped.1]
        have hrow : (cdbRow c.kv.v c.kv.umax c.kv.npts c.kv.deg u).length = pts.length := by
          simp [cdbRow, hlen]
        have hmp : 0 < (matPts m pts).length := by
          simp only [matPts, List.length_map, hrep.shaped.1]
          have := hwff.npts_gt; unfold KV.npts; omega
        have hd' := matPts_dims m pts d _ _ hrep.shaped hlen hn0 hdim
        obtain ⟨l1, c1⟩ := lincomb_spec _ (matPts m pts) d hrow' hmp hd'
        obtain ⟨l2, c2⟩ := lincomb_spec _ pts d hrow (by omega) hdim
        apply vec_ext_getD _ _ (by rw [l1, l2])
        intro j
        rw [c1 j, c2 j, coordCol_matPts m pts d _ _ hrep.shaped hlen hn0 hdim j]
        exact hrep.repro (coordCol pts j) (by simp [coordCol, hlen]) u hu

end NV
