/-
Props/C09.lean — property C09: `Derivate(curve)` is the derivative of the curve.
Proved here for polynomial splines, on every span, as an identity of polynomials (`Polynomial ℚ`, Mathlib's
`derivative`): the derivative of the piece `Σ_i f_i N_{i,p}` is `Σ_r q_r N_{r+1,p−1}` with `q = D f`, `D` the model of
`Calculus.derivate_nonrational_spline` (difference matrix `p/(u_{i+p} − u_i)`), for every degree `p ≥ 1`, every
multiplicity pattern and every coefficient list.  (Which knot is dropped from the vector and which zero-support
control point is dropped with it is checked per input by the oracle `rf.map deriv`.)
-/
import NurbsVerif.Proofs.NPoly
import NurbsVerif.Proofs.MatVec
import NurbsVerif.Model.Calc

open Polynomial
namespace NV

theorem differenceVector_nth (k : KV) (i : Nat) (hi : i < k.npts) :
    nth (differenceVector k) i = (k.deg : ℚ) * (1 / (nth k.v (i + k.deg) - nth k.v i)) := by
  unfold differenceVector nth
  rw [List.getD_eq_getElem?_getD, List.getElem?_map, List.getElem?_range hi]
  simp only [Option.map_some, Option.getD_some]
  split
  · rename_i h
    have : k.v.getD (i + k.deg) 0 - k.v.getD i 0 = 0 := by simpa using h
    rw [this]; simp
  · ring

/-- row `r` of the model of `derivate_nonrational_spline` applied to a coefficient list: the derivative coefficient
`Q_{r+1} = p (f_{r+1} − f_r)/(u_{r+1+p} − u_{r+1})` -/
theorem derivSplineMat_row (k : KV) (p' : Nat) (hp : k.deg = p' + 1) (f : List Rat) (hf : f.length = k.npts)
    (r : Nat) (hr : r + 1 < k.npts) :
    (matVec (derivSplineMat k) f).getD r 0 = derivCoef (nth k.v) p' (fun i => f.getD i 0) (r + 1) := by
  have hlen : (derivSplineMat k).length = k.npts - 1 := by simp [derivSplineMat]
  rw [matVec_getD _ _ r (by omega)]
  unfold derivSplineMat
  simp only []
  rw [List.getD_eq_getElem?_getD, List.getElem?_map, List.getElem?_range (by omega)]
  simp only [Option.map_some, Option.getD_some]
  rw [dot_eq_sum _ f k.npts (by simp) hf]
  have e : ∀ c ∈ Finset.range k.npts,
      ((List.range k.npts).map fun c => if c = r + 1 then nth (differenceVector k) (r + 1)
          else if c = r then -(nth (differenceVector k) (r + 1)) else 0).getD c 0 * f.getD c 0
        = (if c = r + 1 then nth (differenceVector k) (r + 1) * f.getD (r + 1) 0 else 0)
          + (if c = r then -(nth (differenceVector k) (r + 1)) * f.getD r 0 else 0) := by
    intro c hc
    simp only [Finset.mem_range] at hc
    rw [List.getD_eq_getElem?_getD, List.getElem?_map, List.getElem?_range hc]
    simp only [Option.map_some, Option.getD_some]
    by_cases c1 : c = r + 1
    · subst c1
      have : ¬ r + 1 = r := by omega
      simp [this]
    · by_cases c2 : c = r
      · subst c2; simp
      · simp [c1, c2]
  rw [Finset.sum_congr rfl e, Finset.sum_add_distrib,
    Finset.sum_ite_eq' (Finset.range k.npts) (r + 1) (fun _ => nth (differenceVector k) (r + 1) * f.getD (r + 1) 0),
    Finset.sum_ite_eq' (Finset.range k.npts) r (fun _ => -(nth (differenceVector k) (r + 1)) * f.getD r 0)]
  have h1 : r + 1 ∈ Finset.range k.npts := by simp; omega
  have h2 : r ∈ Finset.range k.npts := by simp; omega
  rw [if_pos h1, if_pos h2, differenceVector_nth k (r + 1) hr]
  unfold derivCoef Acoef
  have e1 : r + 1 + p' + 1 = r + 1 + k.deg := by omega
  rw [e1, hp]
  simp only [Nat.add_eq_zero_iff, one_ne_zero, and_false, if_false, Nat.add_sub_cancel]
  push_cast
  ring

/-- **C09 (spline pieces).**  On every span `sz` of a knot list that is monotone up to its last index, for every
degree `p ≥ 1` and every coefficient list `f`: the (polynomial) derivative of the piece `Σ_i f_i N_{i,p}` is
`Σ_r q_r N_{r+1,p−1}` where `q` is the model of `Derivate`'s difference matrix applied to `f`. -/
theorem C09_derivative_piece (k : KV) (p' : Nat) (hp : k.deg = p' + 1) (sz : Nat)
    (hm : MonoUpTo (nth k.v) (k.v.length - 1)) (hlen : k.npts + k.deg + 1 = k.v.length)
    (hsz : k.deg ≤ sz) (hszn : sz < k.npts) (f : List Rat) (hf : f.length = k.npts) :
    derivative (spanPoly (nth k.v) sz k.deg (fun i => f.getD i 0))
      = ∑ r ∈ Finset.range sz, C ((matVec (derivSplineMat k) f).getD r 0) * Npoly (nth k.v) sz (r + 1) p' := by
  rw [hp, spanPoly_derivative (nth k.v) (k.v.length - 1) hm sz p' (by omega)]
  unfold spanPoly
  rw [Finset.sum_range_succ']
  rw [Npoly_eq_zero_of_lt (nth k.v) sz p' 0 (by omega), mul_zero, add_zero]
  apply Finset.sum_congr rfl
  intro r hr
  simp only [Finset.mem_range] at hr
  rw [derivSplineMat_row k p' hp f hf r (by omega)]

/-- the pieces are what the curve evaluates to: `eval u (Σ f_i N_{i,p}) = Σ f_i N_{i,p}(u)` on the span -/
theorem C09_piece_is_curve (t : Nat → Rat) (sz j : Nat) (P : Nat → Rat) (u : Rat) :
    (spanPoly t sz j P).eval u = ∑ i ∈ Finset.range (sz + 1), P i * cdbSpan t sz i j u :=
  spanPoly_eval t sz j P u

end NV
