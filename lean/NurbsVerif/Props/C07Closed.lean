/-
Props/C07Closed.lean — property C07 at curve level including the closing end point: a piece of `split(nodes)` equals
the curve on its half-open interval, and also at its right end when that is the right end of the curve (elsewhere the
piece takes the left limit, the curve the right-continuous value).
-/
import NurbsVerif.Props.C07Rat
import NurbsVerif.Proofs.WindowEnd

namespace NV
open Finset

theorem split_piece_repro_closed (k big pk : KV) (bigM m : Mat) (lo : Nat) (u : Rat)
    (hrep : Repro k big bigM) (hwfB : WF big.v big.deg) (hsepB : Separated big.v)
    (pf : PieceFacts big.v big.deg pk.v pk.umin pk.umax lo) (hdeg : pk.deg = big.deg)
    (hm : m = (bigM.drop lo).take pk.npts) (hu1 : pk.umin ≤ u) (hu2 : u ≤ pk.umax)
    (hend : u = pk.umax → pk.umax = k.umax) :
    WF pk.v pk.deg ∧ Separated pk.v ∧ (k.umin ≤ u ∧ u ≤ k.umax) ∧ Shaped m pk.npts k.npts ∧ 0 < pk.npts
      ∧ ∀ g : List Rat, g.length = k.npts →
          dot (cdbRow pk.v pk.umax pk.npts pk.deg u) (matVec m g) = dot (cdbRow k.v k.umax k.npts k.deg u) g := by
  have gB : GoodKV big := goodKV_of_WF big.v big.deg hwfB hsepB
  have hwfP : WF pk.v pk.deg := by rw [hdeg]; exact pf.wf
  have hlenp : pk.v.length = pk.npts + big.deg + 1 := by
    have := pf.wf.npts_gt; unfold KV.npts; rw [hdeg]; omega
  have hnp : big.deg < pk.npts := by
    have := pf.wf.npts_gt; unfold KV.npts; rw [hdeg]; omega
  have hsepP : Separated pk.v := by
    apply separated_of_subset _ _ hsepB
    intro y hy
    obtain ⟨i, hi, rfl⟩ := List.mem_iff_getElem.mp hy
    rw [← nth_eq_getElem pk.v i hi, pf.win i hi]
    exact nth_mem_of_lt _ _ (by have := pf.fit; omega)
  have gP : GoodKV pk := goodKV_of_WF pk.v pk.deg hwfP hsepP
  have hlenB := gB.ord.len
  have hfit := pf.fit
  have huC : k.umin ≤ u ∧ u ≤ k.umax := by
    rw [← hrep.umin, ← hrep.umax]
    constructor
    · have e1 := pf.win big.deg (by omega)
      rw [pf.umin] at e1
      have : big.umin ≤ pk.umin := by
        rw [e1]; exact gB.ord.mono big.deg (big.deg + lo) (by omega) (by omega)
      exact le_trans this hu1
    · have e2 := pf.win (pk.v.length - big.deg - 1) (by omega)
      rw [pf.umax] at e2
      have : pk.umax ≤ big.umax := by
        rw [e2]; exact gB.ord.le_umax _ (by omega)
      exact le_trans hu2 this
  obtain ⟨sz', hs1, hs2, hin⟩ := exists_span pk gP u ⟨hu1, hu2⟩
  rw [hdeg] at hs1
  have hshape : Shaped m pk.npts k.npts := by
    constructor
    · rw [hm, List.length_take, List.length_drop, hrep.shaped.1]
      unfold KV.npts at hlenB ⊢; omega
    · intro row hrow
      rw [hm] at hrow
      exact hrep.shaped.2 row (List.mem_of_mem_drop (List.mem_of_mem_take hrow))
  refine ⟨hwfP, hsepP, huC, hshape, by omega, ?_⟩
  intro g hg
  have hmv : matVec m g = ((matVec bigM g).drop lo).take pk.npts := by
    rw [hm]; unfold matVec; rw [List.map_take, List.map_drop]
  have hQ : (matVec bigM g).length = big.npts := by rw [matVec_length, hrep.shaped.1]
  rw [hmv, hdeg]
  rw [window_eval_closed big.v pk.v big.umax pk.umax big.npts pk.npts big.deg lo (matVec bigM g) u sz'
    gB.ord.mono gB.ord.le_umax hlenB (by have := gP.ord.mono; rw [hdeg] at *; exact this)
    gP.ord.le_umax (by omega) pf.win hfit hQ hs1 hs2 hin (by intro e; rw [hrep.umax]; exact (hend e).symm)]
  exact hrep.repro g hg u huC

/-- polynomial counterpart of `curveDef_rational_transfer` -/
theorem curveDef_poly_transfer (U' : List Rat) (umax' : Rat) (n' p' : Nat) (U : List Rat) (umax : Rat) (n p : Nat)
    (m : Mat) (pts : List Vec) (d : Nat) (u : Rat)
    (hm : Shaped m n' n) (hn0 : 0 < n) (hn' : 0 < n') (hlen : pts.length = n) (hdim : ∀ q ∈ pts, q.length = d)
    (hR : ∀ g : List Rat, g.length = n → dot (cdbRow U' umax' n' p' u) (matVec m g) = dot (cdbRow U umax n p u) g) :
    curveDef U' umax' n' p' (matPts m pts) none u = curveDef U umax n p pts none u := by
  unfold curveDef
  simp only []
  have hml : (matPts m pts).length = n' := by simp [matPts, hm.1]
  have hrow' : (cdbRow U' umax' n' p' u).length = (matPts m pts).length := by simp [cdbRow, hml]
  have hrow : (cdbRow U umax n p u).length = pts.length := by simp [cdbRow, hlen]
  have hd' := matPts_dims m pts d _ _ hm hlen hn0 hdim
  obtain ⟨l1, c1⟩ := lincomb_spec _ (matPts m pts) d hrow' (by omega) hd'
  obtain ⟨l2, c2⟩ := lincomb_spec _ pts d hrow (by omega) hdim
  apply vec_ext_getD _ _ (by rw [l1, l2])
  intro j
  rw [c1 j, c2 j, coordCol_matPts m pts d _ _ hm hlen hn0 hdim j]
  exact hR (coordCol pts j) (by simp [coordCol, hlen])

/-- **C07, closed form, polynomial curves.**  Every piece of `split(nodes)` evaluates to the value of the curve at every
parameter of its half-open interval, and at its right end too when this is the right end of the curve. -/
theorem C07_split_piece_eval_closed (c : Curve) (ns : List Rat) (out : List Curve) (pts : List Vec) (d : Nat)
    (hP : c.P = some pts) (hW : c.W = none) (hlen : pts.length = c.kv.npts) (hdim : ∀ q ∈ pts, q.length = d)
    (hwf : WF c.kv.v c.kv.deg) (hsep : Separated (c.kv.v ++ ns)) (h : c.split (some ns) = .ok out) :
    ∀ piece ∈ out, ∀ u, piece.kv.umin ≤ u → (u < piece.kv.umax ∨ (u = piece.kv.umax ∧ piece.kv.umax = c.kv.umax)) →
      piece.eval u = c.eval u := by
  intro piece hpiece u hu1 hu2
  unfold Curve.split at h
  simp only [bind, Except.bind] at h
  split at h
  · cases h
  · rename_i pieces hps
    split at h
    · cases h
    · rename_i mats hmats
      rw [hP] at h
      simp only [] at h
      have hvalid := split_valid c.kv ns pieces hps
      obtain ⟨big, bigM, pieces', hrep, hwfB, hsepB, hps', hlenM, hall⟩ :=
        splitCurveMats_spec c.kv ns mats hwf hsep hvalid hmats
      rw [hps] at hps'
      simp only [Except.ok.injEq] at hps'
      subst hps'
      obtain ⟨hlenO, hzO⟩ := mapM_ok_zip _ _ out h
      obtain ⟨pm, hpm, hz⟩ := mem_zip_of_mem_right _ out hlenO piece hpiece
      have hmk := hzO pm piece hz
      obtain ⟨pk, m⟩ := pm
      rw [hW] at hmk
      simp only [] at hmk
      obtain ⟨lo, pf, hdeg, hm⟩ := hall pk m hpm
      have hsepK : Separated c.kv.v := separated_of_subset _ _ hsep (fun y hy => by simp [hy])
      have hn0 : 0 < c.kv.npts := by have := hwf.npts_gt; unfold KV.npts; omega
      have hpc : piece = ⟨pk, some (matPts m pts), none⟩ := (mk?_spec _ _ _ _ hmk).1
      have hu1' : pk.umin ≤ u := by rw [hpc] at hu1; exact hu1
      have hu2' : u ≤ pk.umax := by
        rw [hpc] at hu2; rcases hu2 with h2 | ⟨h2, _⟩
        · exact le_of_lt h2
        · exact le_of_eq h2
      have hend : u = pk.umax → pk.umax = c.kv.umax := by
        intro e; rw [hpc] at hu2
        rcases hu2 with h2 | ⟨_, h3⟩
        · exfalso; rw [e] at h2; exact lt_irrefl _ h2
        · exact h3
      obtain ⟨hwfP, hsepP, huC, hshape, hnp, hR⟩ :=
        split_piece_repro_closed c.kv big pk bigM m lo u hrep hwfB hsepB pf hdeg hm hu1' hu2' hend
      rw [hpc]
      rw [C01_eval_eq_def_WF ⟨pk, some (matPts m pts), none⟩ (matPts m pts) u rfl hwfP hsepP ⟨hu1', hu2'⟩
          (by intro ws hws; cases hws),
        C01_eval_eq_def_WF c pts u hP hwf hsepK huC (by intro ws hws; rw [hW] at hws; cases hws)]
      congr 1
      rw [hW]
      exact curveDef_poly_transfer pk.v pk.umax pk.npts pk.deg c.kv.v c.kv.umax c.kv.npts c.kv.deg m pts d u
        hshape hn0 hnp hlen hdim hR

/-- **C07, closed form, rational curves** (wherever the weight function does not vanish). -/
theorem C07_split_piece_eval_rational_closed (c : Curve) (ns : List Rat) (out : List Curve) (pts : List Vec)
    (ws : List Rat) (d : Nat) (hP : c.P = some pts) (hW : c.W = some ws) (hlen : pts.length = c.kv.npts)
    (hwl : ws.length = c.kv.npts) (hdim : ∀ q ∈ pts, q.length = d) (hwf : WF c.kv.v c.kv.deg)
    (hsep : Separated (c.kv.v ++ ns)) (h : c.split (some ns) = .ok out) :
    ∀ piece ∈ out, ∀ u, piece.kv.umin ≤ u → (u < piece.kv.umax ∨ (u = piece.kv.umax ∧ piece.kv.umax = c.kv.umax)) →
      dot (cdbRow c.kv.v c.kv.umax c.kv.npts c.kv.deg u) ws ≠ 0 → piece.eval u = c.eval u := by
  intro piece hpiece u hu1 hu2 hden
  unfold Curve.split at h
  simp only [bind, Except.bind] at h
  split at h
  · cases h
  · rename_i pieces hps
    split at h
    · cases h
    · rename_i mats hmats
      rw [hP] at h
      simp only [] at h
      have hvalid := split_valid c.kv ns pieces hps
      obtain ⟨big, bigM, pieces', hrep, hwfB, hsepB, hps', hlenM, hall⟩ :=
        splitCurveMats_spec c.kv ns mats hwf hsep hvalid hmats
      rw [hps] at hps'
      simp only [Except.ok.injEq] at hps'
      subst hps'
      obtain ⟨hlenO, hzO⟩ := mapM_ok_zip _ _ out h
      obtain ⟨pm, hpm, hz⟩ := mem_zip_of_mem_right _ out hlenO piece hpiece
      have hmk := hzO pm piece hz
      obtain ⟨pk, m⟩ := pm
      rw [hW] at hmk
      simp only [] at hmk
      split at hmk
      · cases hmk
      · rename_i hnz
        obtain ⟨lo, pf, hdeg, hm⟩ := hall pk m hpm
        have hpc := (mk?_spec _ _ _ _ hmk).1
        have hu1' : pk.umin ≤ u := by rw [hpc] at hu1; exact hu1
        have hu2' : u ≤ pk.umax := by
          rw [hpc] at hu2; rcases hu2 with h2 | ⟨h2, _⟩
          · exact le_of_lt h2
          · exact le_of_eq h2
        have hend : u = pk.umax → pk.umax = c.kv.umax := by
          intro e; rw [hpc] at hu2
          rcases hu2 with h2 | ⟨_, h3⟩
          · exfalso; rw [e] at h2; exact lt_irrefl _ h2
          · exact h3
        obtain ⟨hwfP, hsepP, huC, hshape, hnp, hR⟩ :=
          split_piece_repro_closed c.kv big pk bigM m lo u hrep hwfB hsepB pf hdeg hm hu1' hu2' hend
        have hsepK : Separated c.kv.v := separated_of_subset _ _ hsep (fun y hy => by simp [hy])
        have hn0 : 0 < c.kv.npts := by have := hwf.npts_gt; unfold KV.npts; omega
        rw [hpc]
        rw [C01_eval_eq_def_WF ⟨pk, some (Curve.unweighted (matVec m ws) (matPts m (Curve.weighted ws pts))),
              some (matVec m ws)⟩ (Curve.unweighted (matVec m ws) (matPts m (Curve.weighted ws pts))) u rfl hwfP hsepP
            ⟨hu1', hu2'⟩
            (by intro ws2 hws2; simp only [Option.some.injEq] at hws2; rw [← hws2, hR ws hwl]; exact hden),
          C01_eval_eq_def_WF c pts u hP hwf hsepK huC (by intro ws2 hws2; rw [hW] at hws2; cases hws2; exact hden)]
        congr 1
        rw [hW]
        exact curveDef_rational_transfer pk.v pk.umax pk.npts pk.deg c.kv.v c.kv.umax c.kv.npts c.kv.deg m pts ws d u
          hshape hn0 hnp hlen hwl hdim hnz hR

end NV
