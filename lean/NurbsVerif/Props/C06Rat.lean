/-
Props/C06Rat.lean — property C06 for rational Bezier curves: `degree_increase(times)` of a single-span rational curve
with positive weights returns the same function (numerator and denominator are both reproduced by the Bezier elevation
matrix, `C06_bezier_elevation`; the quotient is transferred by `curveDef_rational_transfer`).
-/
import NurbsVerif.Props.C06Curve
import NurbsVerif.Proofs.RatTransfer

namespace NV

/-- the knot vector `knotvector + times · knots` of a single-span vector is the Bezier vector of the higher degree -/
theorem bezier_insert_facts (k newk : KV) (times : Nat) (hwf : WF k.v k.deg) (hsep : Separated k.v)
    (hbez : k.deg + 1 = k.npts) (hins : k.insert (KV.repeatList times k.knots) = .ok newk) :
    k.umin < k.umax ∧ newk.v = bezList (k.deg + times) k.umin k.umax ∧ newk.deg = k.deg + times
      ∧ newk.npts = k.deg + times + 1 ∧ newk.umin = k.umin ∧ newk.umax = k.umax
      ∧ Separated newk.v ∧ WF newk.v newk.deg := by
  have g : GoodKV k := by
    have := goodKV_of_WF k.v k.deg hwf hsep
    cases k; exact this
  have hlt : k.umin < k.umax := by
    have h1 := g.ord.mono k.deg (k.npts - 1) (by omega) (by have := g.ord.len; omega)
    have h2 := g.last
    unfold KV.umin KV.umax
    exact lt_of_le_of_lt h1 h2
  have hne : k.umin ≠ k.umax := ne_of_lt hlt
  have hv := bezier_kv_list k hwf hbez
  have hnv : isValid newk.v none = true ∧ newk.v = isort (k.v ++ KV.repeatList times k.knots)
      ∧ newk.deg = cnt newk.v (newk.v.headD 0) - 1 := by
    unfold KV.insert at hins
    split at hins
    · cases hins
    · obtain ⟨h1, h2, h3⟩ := mk?_ok _ _ hins
      rw [← h2] at h1 h3
      exact ⟨h1, h2, h3⟩
  obtain ⟨hval, hnewv, hnd⟩ := hnv
  have hlist : newk.v = bezList (k.deg + times) k.umin k.umax := by
    rw [hnewv]
    apply sorted_eq_of_cnt _ _ (sortedLE_isort _) (sortedLE_bezList _ _ _ hlt)
    intro x
    rw [cnt_isort, cnt_append, cnt_repeatList, cnt_knots_bezier k g hwf hbez x, hv,
      cnt_bezList _ _ _ x hne, cnt_bezList _ _ _ x hne]
    by_cases h1 : x = k.umin
    · simp only [h1, if_true]; ring
    · by_cases h2 : x = k.umax
      · rw [if_neg h1, if_pos h2, if_neg h1, if_pos h2, if_neg h1, if_pos h2]; ring
      · simp [h1, h2]
  have hdeg : newk.deg = k.deg + times := by
    rw [hnd, hlist]
    have : (bezList (k.deg + times) k.umin k.umax).headD 0 = k.umin := by
      rw [headD_eq_nth, nth_bezList _ _ _ 0 (by omega)]; simp [bezKnots]
    rw [this, cnt_bezList _ _ _ _ hne]
    simp
  have hnpts : newk.npts = k.deg + times + 1 := by
    unfold KV.npts; rw [hlist, bezList_length, hdeg]; omega
  have humin : newk.umin = k.umin := by
    show nth newk.v newk.deg = k.umin
    rw [hlist, hdeg, nth_bezList _ _ _ _ (by omega)]; simp [bezKnots]
  have humax : newk.umax = k.umax := by
    show nth newk.v newk.npts = k.umax
    rw [hnpts, hlist, nth_bezList _ _ _ _ (by omega)]; simp [bezKnots]
  have hsepN : Separated newk.v := by
    apply separated_of_subset _ _ hsep
    intro y hy
    rw [hlist] at hy
    unfold bezList at hy
    rcases List.mem_append.mp hy with h1 | h1
    · rw [List.eq_of_mem_replicate h1]; unfold KV.umin; exact nth_mem _ _ (by have := g.ord.len; omega)
    · rw [List.eq_of_mem_replicate h1]; unfold KV.umax; exact nth_mem _ _ (by have := g.ord.len; omega)
  have hwfN : WF newk.v newk.deg := by rw [hnd]; exact isValid_WF newk.v hsepN hval
  exact ⟨hlt, hlist, hdeg, hnpts, humin, humax, hsepN, hwfN⟩

/-- **C06 (Bezier elevation preserves the curve), rational curves with positive weights.** -/
theorem C06_bezier_degree_increase_rational (c c' : Curve) (times : Nat) (pts : List Vec) (ws : List Rat) (d : Nat)
    (hP : c.P = some pts) (hW : c.W = some ws) (hlen : pts.length = c.kv.npts) (hwl : ws.length = c.kv.npts)
    (hwpos : ∀ w ∈ ws, 0 < w) (hdim : ∀ p ∈ pts, p.length = d)
    (hwf : WF c.kv.v c.kv.deg) (hsep : Separated c.kv.v) (hbez : c.kv.deg + 1 = c.kv.npts)
    (h : c.degreeIncrease times = .ok c') (u : Rat) (hu : c.kv.umin ≤ u ∧ u ≤ c.kv.umax) :
    c'.kv.v = bezList (c.kv.deg + times) c.kv.umin c.kv.umax ∧ c'.eval u = c.eval u := by
  have g : GoodKV c.kv := goodKV_of_WF c.kv.v c.kv.deg hwf hsep
  have hv := bezier_kv_list c.kv hwf hbez
  unfold Curve.degreeIncrease at h
  simp only [bind, Except.bind] at h
  split at h
  · cases h
  · rename_i ht
    split at h
    · cases h
    · rename_i newk hins
      split at h
      · cases h
      · rename_i m hm
        have hmat : m = elevBezier c.kv.deg times := by
          unfold degreeIncreaseMat at hm
          simp only [ht, if_false, hbez, if_true, pure, Except.pure, Except.ok.injEq] at hm
          exact hm.symm
        subst hmat
        obtain ⟨hlt, hlist, hdeg, hnpts, humin, humax, hsepN, hwfN⟩ :=
          bezier_insert_facts c.kv newk times hwf hsep hbez hins
        obtain ⟨sE, hrep⟩ := C06_bezier_elevation c.kv.umin c.kv.umax hlt times c.kv.deg
        -- every coefficient function is reproduced over the new vector
        have hR : ∀ f : List Rat, f.length = c.kv.npts →
            dot (cdbRow newk.v newk.umax newk.npts newk.deg u) (matVec (elevBezier c.kv.deg times) f)
              = dot (cdbRow c.kv.v c.kv.umax c.kv.npts c.kv.deg u) f := by
          intro f hf
          rw [hlist, humax, hnpts, hdeg]
          conv_rhs => rw [hv, ← hbez]
          exact hrep u hu f (by rw [hf, hbez])
        have hden : dot (cdbRow c.kv.v c.kv.umax c.kv.npts c.kv.deg u) ws ≠ 0 :=
          ne_of_gt (weight_function_pos c.kv g u hu ws hwl hwpos)
        -- the new curve
        unfold Curve.apply at h
        rw [hP, hW] at h
        simp only [bind, Except.bind] at h
        split at h
        · cases h
        · split at h
          · cases h
          · rename_i hnz
            have hc' := (mk?_spec _ _ _ _ h).1
            refine ⟨by rw [hc']; exact hlist, ?_⟩
            have hu' : newk.umin ≤ u ∧ u ≤ newk.umax := by rw [humin, humax]; exact hu
            rw [hc', C01_eval_eq_def_WF _ _ u rfl hwfN hsepN hu'
                (by intro ws2 hws2; simp only [Option.some.injEq] at hws2; rw [← hws2, hR ws hwl]; exact hden),
              C01_eval_eq_def_WF c pts u hP hwf hsep hu (by intro ws2 hws2; rw [hW] at hws2; cases hws2; exact hden)]
            congr 1
            rw [hW]
            have sE' : Shaped (elevBezier c.kv.deg times) newk.npts c.kv.npts := by
              rw [hnpts, ← hbez]; exact sE
            exact curveDef_rational_transfer newk.v newk.umax newk.npts newk.deg c.kv.v c.kv.umax c.kv.npts c.kv.deg
              (elevBezier c.kv.deg times) pts ws d u sE' (by omega) (by omega) hlen hwl hdim hnz hR

end NV
