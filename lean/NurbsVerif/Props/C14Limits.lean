/-
Props/C14Limits.lean — removing an interior knot keeps the interval, the degree and well-formedness; hence the
single-knot cleaning loop keeps them, and `knot_clean([x])` twice is `knot_clean([x])` once (no side hypothesis).
-/
import NurbsVerif.Props.C14Fix
import NurbsVerif.Proofs.SplitKV

namespace NV

theorem cnt_of_perm_cons (x : Rat) (v l : List Rat) (h : v.Perm (x :: l)) (y : Rat) :
    cnt v y = (if x = y then 1 else 0) + cnt l y := by
  rw [cnt_eq_count, cnt_eq_count, h.count_eq, List.count_cons]
  by_cases e : x = y
  · simp [e]; omega
  · have : (x == y) = false := by simpa using e
    simp [e, this]

theorem sorted_bounds (l : List Rat) (hs : sortedLE l = true) (y : Rat) (hy : y ∈ l) :
    nth l 0 ≤ y ∧ y ≤ l.getLastD 0 := by
  obtain ⟨i, hi, rfl⟩ := List.mem_iff_getElem.mp hy
  have hpos : 0 < l.length := by omega
  rw [← nth_eq_getElem l i hi, getLastD_eq_nth l hpos]
  exact ⟨sortedLE_mono l hs 0 i (by omega) hi, sortedLE_mono l hs i (l.length - 1) (by omega) (by omega)⟩

/-- one accepted removal of an interior knot -/
theorem knotRemove_interior_limits (c c' : Curve) (x : Rat) (tol : Option Rat) (hwf : WF c.kv.v c.kv.deg)
    (hx1 : x ≠ c.kv.umin) (hx2 : x ≠ c.kv.umax) (h : c.knotRemove [x] tol = .ok c') :
    WF c'.kv.v c'.kv.deg ∧ c'.kv.deg = c.kv.deg ∧ c'.kv.umin = c.kv.umin ∧ c'.kv.umax = c.kv.umax := by
  have hfirst : nth c.kv.v 0 = c.kv.umin := (umin_eq_first c.kv.v c.kv.deg hwf).symm
  have hlast : c.kv.v.getLastD 0 = c.kv.umax := by
    have := umax_eq_last c.kv.v c.kv.deg hwf; unfold KV.umax KV.npts; exact this.symm
  have hrem := C05_knots c c' [x] tol h
  obtain ⟨hperm, hsub⟩ := removeAll_perm [x] c.kv.v c'.kv.v hrem
  simp only [List.singleton_append] at hperm
  -- the new vector is valid
  simp only [Curve.knotRemove, bind, Except.bind] at h
  split at h
  · cases h
  · rename_i newk hnk
    have hk := update_kv c newk tol _ c' h
    simp only [KV.remove] at hnk
    rw [hrem] at hnk
    simp only [] at hnk
    obtain ⟨hval, hv, hdg⟩ := mk?_ok _ newk hnk
    rw [← hk] at hv hdg
    have hwf0 := isValid_WF_exact c'.kv.v (by rw [hv]; exact hval)
    rw [← hv] at hdg
    rw [← hdg] at hwf0
    set l := c'.kv.v with hl
    have hcount := cnt_of_perm_cons x c.kv.v l hperm
    have hposV : 0 < c.kv.v.length := by have := hwf.npts_gt; omega
    -- the first value survives and stays first
    have hhV : cnt c.kv.v c.kv.umin = c.kv.deg + 1 := by
      have := hwf.first; rw [headD_eq_nth, hfirst] at this; exact this
    have hhL : cnt l c.kv.umin = c.kv.deg + 1 := by
      have := hcount c.kv.umin; rw [if_neg hx1] at this; omega
    have hmemMin : c.kv.umin ∈ l := by
      by_contra cn
      have := cnt_eq_zero_of_forall_ne l c.kv.umin (fun y hy e => cn (e ▸ hy))
      omega
    have hposL : 0 < l.length := List.length_pos_of_mem hmemMin
    have hheadL : nth l 0 = c.kv.umin := by
      apply le_antisymm
      · exact (sorted_bounds l hwf0.sorted _ hmemMin).1
      · have hin : nth l 0 ∈ c.kv.v := hsub.subset (nth_mem_of_lt l 0 hposL)
        rw [← hfirst]; exact (sorted_bounds c.kv.v hwf.sorted _ hin).1
    have hlV : cnt c.kv.v c.kv.umax = c.kv.deg + 1 := by
      have := hwf.last; rw [hlast] at this; exact this
    have hlL : cnt l c.kv.umax = c.kv.deg + 1 := by
      have := hcount c.kv.umax; rw [if_neg hx2] at this; omega
    have hmemMax : c.kv.umax ∈ l := by
      by_contra cn
      have := cnt_eq_zero_of_forall_ne l c.kv.umax (fun y hy e => cn (e ▸ hy))
      omega
    have hlastL : l.getLastD 0 = c.kv.umax := by
      apply le_antisymm
      · have hin : l.getLastD 0 ∈ c.kv.v := by
          rw [getLastD_eq_nth l hposL]
          exact hsub.subset (nth_mem_of_lt l _ (by omega))
        rw [← hlast]; exact (sorted_bounds c.kv.v hwf.sorted _ hin).2
      · exact (sorted_bounds l hwf0.sorted _ hmemMax).2
    have hdeg : c'.kv.deg = c.kv.deg := by
      rw [hdg, headD_eq_nth, hheadL, hhL]; omega
    refine ⟨hwf0, hdeg, ?_, ?_⟩
    · have e := umin_eq_first l c'.kv.deg hwf0
      show nth c'.kv.v c'.kv.deg = c.kv.umin
      rw [← hl, e]; exact hheadL
    · have e := umax_eq_last l c'.kv.deg hwf0
      show nth c'.kv.v (c'.kv.v.length - c'.kv.deg - 1) = c.kv.umax
      rw [← hl, e]; exact hlastL

/-- the single-knot loop keeps well-formedness, degree and limits -/
theorem removeWhilePossible_limits : ∀ (f : Nat) (c : Curve) (x : Rat) (tol : Option Rat),
    WF c.kv.v c.kv.deg → x ≠ c.kv.umin → x ≠ c.kv.umax →
    let c' := Curve.removeWhilePossible f c x tol
    WF c'.kv.v c'.kv.deg ∧ c'.kv.umin = c.kv.umin ∧ c'.kv.umax = c.kv.umax := by
  intro f
  induction f with
  | zero => intro c x tol hwf _ _; exact ⟨hwf, rfl, rfl⟩
  | succ f ih =>
    intro c x tol hwf h1 h2
    simp only [Curve.removeWhilePossible]
    split
    · rename_i c1 hc1
      obtain ⟨w1, _, m1, m2⟩ := knotRemove_interior_limits c c1 x tol hwf h1 h2 hc1
      obtain ⟨w2, n1, n2⟩ := ih c1 x tol w1 (by rw [m1]; exact h1) (by rw [m2]; exact h2)
      exact ⟨w2, by rw [n1, m1], by rw [n2, m2]⟩
    · exact ⟨hwf, rfl, rfl⟩

/-- **C14: `knot_clean([x])` is idempotent** for every curve on a well-formed knot vector, every interior value `x`
and every tolerance. -/
theorem C14_knotClean_idempotent_one_knot (c : Curve) (x : Rat) (tol : Rat) (hwf : WF c.kv.v c.kv.deg)
    (hx : x ≠ c.kv.umin ∧ x ≠ c.kv.umax) :
    Curve.knotClean (Curve.knotClean c (some [x]) tol) (some [x]) tol = Curve.knotClean c (some [x]) tol := by
  apply C14_knotClean_single_idempotent c x tol hx
  have hfilter : Curve.knotClean c (some [x]) tol = Curve.removeWhilePossible (c.kv.v.length + 1) c x (some tol) := by
    unfold Curve.knotClean
    have e1 : (x == c.kv.umin) = false := by simpa using hx.1
    have e2 : (x == c.kv.umax) = false := by simpa using hx.2
    simp [isort, dedup, insSorted, e1, e2]
  rw [hfilter]
  obtain ⟨_, a1, a2⟩ := removeWhilePossible_limits (c.kv.v.length + 1) c x (some tol) hwf hx.1 hx.2
  exact ⟨a1, a2⟩

end NV
