/-
Props/C17Coarsest.lean — property C17, the words "coarsest" and "common coarsening" (equal degrees, separated values):

* `C17_union_cnt`  — in `U | V` *every* rational occurs exactly `max(cnt U, cnt V)` times (not only the listed knots);
* `C17_union_coarsest` — hence `U | V` is the least common refinement: whatever knot vector `W` refines `U` and `V`
  refines `U | V` too;
* `C17_inter_cnt`, `C17_inter_greatest` — dually `U & V` holds every value `min(cnt U, cnt V)` times and is the greatest
  common coarsening: whatever is refined by `U` and by `V` is refined by `U & V`.
-/
import NurbsVerif.Props.C17Comm

namespace NV

theorem cnt_zero_of_not_mem (l : List Rat) (x : Rat) (h : x ∉ l) : cnt l x = 0 := by
  rw [cnt_eq_count]; exact List.count_eq_zero_of_not_mem h

theorem multSingle_eq_cnt_sep (k : KV) (hsep : Separated k.v) (x : Rat) (hx : x ∈ k.v) : k.multSingle x = cnt k.v x := by
  apply mult_spec
  intro y hy
  by_cases e : y = x
  · exact Or.inl e
  · right
    exact le_trans tol9_le_tol6 (hsep x hx y hy (fun h => e h.symm))

/-- **C17 (union, every value).**  For operands of equal degree with separated knot values, every rational number
occurs in `U | V` exactly `max(cnt U, cnt V)` times. -/
theorem C17_union_cnt (a b c : KV) (hwa : WF a.v a.deg) (hwb : WF b.v b.deg) (hsep : Separated (a.v ++ b.v))
    (hdeg : a.deg = b.deg) (h : a.union b = .ok c) (x : Rat) :
    cnt c.v x = max (cnt a.v x) (cnt b.v x) := by
  have hsepA : Separated a.v := separated_of_subset _ _ hsep (fun y hy => by simp [hy])
  have hsepB : Separated b.v := separated_of_subset _ _ hsep (fun y hy => by simp [hy])
  have ga : GoodKV a := by
    have := goodKV_of_WF a.v a.deg hwa hsepA
    cases a; exact this
  have gb : GoodKV b := by
    have := goodKV_of_WF b.v b.deg hwb hsepB
    cases b; exact this
  have hsub : ∀ y ∈ a.knots ++ b.knots, y ∈ a.v ++ b.v := by
    intro y hy
    rcases List.mem_append.mp hy with h1 | h1
    · exact List.mem_append.mpr (Or.inl (knots_subset a y h1))
    · exact List.mem_append.mpr (Or.inr (knots_subset b y h1))
  by_cases hx : x ∈ getUnique (a.knots ++ b.knots)
  · obtain ⟨i, hi, hxi⟩ := List.mem_iff_getElem.mp hx
    have hm := C17_union_mult a b c h i hi
    rw [hxi] at hm
    rw [hm, hdeg, Nat.max_self]
    have e1 : (if a.v.any (· == x) then a.multSingle x + b.deg - b.deg else 0) = cnt a.v x := by
      by_cases hxa : x ∈ a.v
      · have : a.v.any (· == x) = true := by simp [hxa]
        rw [this, if_pos rfl, multSingle_eq_cnt_sep a hsepA x hxa]; omega
      · have : a.v.any (· == x) = false := by
          rw [List.any_eq_false]; intro y hy; simp only [beq_iff_eq]; intro e; exact hxa (e ▸ hy)
        rw [this, cnt_zero_of_not_mem a.v x hxa]; simp
    have e2 : (if b.v.any (· == x) then b.multSingle x + b.deg - b.deg else 0) = cnt b.v x := by
      by_cases hxb : x ∈ b.v
      · have : b.v.any (· == x) = true := by simp [hxb]
        rw [this, if_pos rfl, multSingle_eq_cnt_sep b hsepB x hxb]; omega
      · have : b.v.any (· == x) = false := by
          rw [List.any_eq_false]; intro y hy; simp only [beq_iff_eq]; intro e; exact hxb (e ▸ hy)
        rw [this, cnt_zero_of_not_mem b.v x hxb]; simp
    rw [e1, e2]
  · -- a value that is no knot of either operand occurs nowhere
    have hxa : x ∉ a.v := fun hxa => hx (mem_getUnique_of_separated _ _ hsub hsep x
      (List.mem_append.mpr (Or.inl (mem_v_mem_knots a ga hwa x hxa))))
    have hxb : x ∉ b.v := fun hxb => hx (mem_getUnique_of_separated _ _ hsub hsep x
      (List.mem_append.mpr (Or.inr (mem_v_mem_knots b gb hwb x hxb))))
    rw [cnt_zero_of_not_mem a.v x hxa, cnt_zero_of_not_mem b.v x hxb]
    simp only [KV.union] at h
    split at h
    · simp at h
    · split at h
      · simp at h
      · obtain ⟨_, hv, _⟩ := mk?_ok _ _ h
        rw [hv, cnt_isort]
        simp only [Nat.max_self]
        exact cnt_zero_of_not_mem _ x (fun hm => hx (mem_replicateKnots _ _ x hm))

/-- **C17 (`U | V` is the coarsest common refinement).**  Equal degrees: every knot vector that refines both operands
refines their union. -/
theorem C17_union_coarsest (a b c w : KV) (hwa : WF a.v a.deg) (hwb : WF b.v b.deg) (hsep : Separated (a.v ++ b.v))
    (hdeg : a.deg = b.deg) (h : a.union b = .ok c) (ha : Refines a w) (hb : Refines b w) : Refines c w := by
  intro x
  rw [C17_union_cnt a b c hwa hwb hsep hdeg h x]
  exact max_le (ha x) (hb x)

/-- **C17 (intersection, every value).**  For operands with separated knot values every rational number occurs in
`U & V` exactly `min(cnt U, cnt V)` times. -/
theorem C17_inter_cnt (a b c : KV) (hwa : WF a.v a.deg) (hwb : WF b.v b.deg) (hsep : Separated (a.v ++ b.v))
    (h : a.inter b = .ok c) (x : Rat) :
    cnt c.v x = min (cnt a.v x) (cnt b.v x) := by
  have hsepA : Separated a.v := separated_of_subset _ _ hsep (fun y hy => by simp [hy])
  have hsepB : Separated b.v := separated_of_subset _ _ hsep (fun y hy => by simp [hy])
  have ga : GoodKV a := by
    have := goodKV_of_WF a.v a.deg hwa hsepA
    cases a; exact this
  have gb : GoodKV b := by
    have := goodKV_of_WF b.v b.deg hwb hsepB
    cases b; exact this
  have hnd : (isort ((dedup a.knots).filter fun x => b.knots.any (· == x))).Nodup :=
    isort_nodup _ ((dedup_nodup _).sublist List.filter_sublist)
  by_cases hx : x ∈ isort ((dedup a.knots).filter fun x => b.knots.any (· == x))
  · obtain ⟨i, hi, hxi⟩ := List.mem_iff_getElem.mp hx
    have hm := C17_inter_mult a b c h _ rfl hnd i hi
    rw [hxi] at hm
    rw [mem_isort, List.mem_filter, mem_dedup] at hx
    have hxa : x ∈ a.v := knots_subset a x hx.1
    have hxb : x ∈ b.v := by
      have := hx.2
      simp only [List.any_eq_true, beq_iff_eq] at this
      obtain ⟨y, hy, rfl⟩ := this
      exact knots_subset b y hy
    rw [hm, multSingle_eq_cnt_sep a hsepA x hxa, multSingle_eq_cnt_sep b hsepB x hxb]
  · have hz : cnt c.v x = 0 := by
      simp only [KV.inter] at h
      split at h
      · simp at h
      · obtain ⟨_, hv, _⟩ := mk?_ok _ _ h
        rw [hv, cnt_isort]
        exact cnt_zero_of_not_mem _ x (fun hm => hx (mem_replicateKnots _ _ x hm))
    rw [hz]
    rw [mem_isort, List.mem_filter, mem_dedup] at hx
    by_cases hxa : x ∈ a.v
    · by_cases hxb : x ∈ b.v
      · exfalso
        apply hx
        refine ⟨mem_v_mem_knots a ga hwa x hxa, ?_⟩
        simp only [List.any_eq_true, beq_iff_eq]
        exact ⟨x, mem_v_mem_knots b gb hwb x hxb, rfl⟩
      · rw [cnt_zero_of_not_mem b.v x hxb]; simp
    · rw [cnt_zero_of_not_mem a.v x hxa]; simp

/-- **C17 (`U & V` is the finest common coarsening).**  Every knot vector refined by both operands is refined by
their intersection. -/
theorem C17_inter_greatest (a b c w : KV) (hwa : WF a.v a.deg) (hwb : WF b.v b.deg) (hsep : Separated (a.v ++ b.v))
    (h : a.inter b = .ok c) (ha : Refines w a) (hb : Refines w b) : Refines w c := by
  intro x
  rw [C17_inter_cnt a b c hwa hwb hsep h x]
  exact le_min (ha x) (hb x)

/-- `U & V` is refined by both operands -/
theorem C17_inter_coarsens (a b c : KV) (hwa : WF a.v a.deg) (hwb : WF b.v b.deg) (hsep : Separated (a.v ++ b.v))
    (h : a.inter b = .ok c) : Refines c a ∧ Refines c b := by
  constructor <;> intro x <;> rw [C17_inter_cnt a b c hwa hwb hsep h x]
  · exact min_le_left _ _
  · exact min_le_right _ _

/-! non-vacuity: the hypotheses are met by a concrete pair with crossing multiplicities -/
example : (KV.union ⟨[0, 0, 0, mkRat 1 3, mkRat 1 3, mkRat 2 3, 1, 1, 1], 2⟩ ⟨[0, 0, 0, mkRat 1 3, mkRat 2 3, mkRat 2 3, 1, 1, 1], 2⟩)
    = .ok ⟨[0, 0, 0, mkRat 1 3, mkRat 1 3, mkRat 2 3, mkRat 2 3, 1, 1, 1], 2⟩ := by decide +kernel
example : (KV.inter ⟨[0, 0, 0, mkRat 1 3, mkRat 1 3, mkRat 2 3, 1, 1, 1], 2⟩ ⟨[0, 0, 0, mkRat 1 3, mkRat 2 3, mkRat 2 3, 1, 1, 1], 2⟩)
    = .ok ⟨[0, 0, 0, mkRat 1 3, mkRat 2 3, 1, 1, 1], 2⟩ := by decide +kernel

end NV
