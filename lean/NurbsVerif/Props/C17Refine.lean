/-
Props/C17Refine.lean — property C17 ("the union is a refinement of both operands"): for operands of equal degree whose
knot values are separated, every value occurs in `U | V` at least as often as in `U` and as in `V`.  Together with
`matrixTransformation_repro` this is what makes every spline over `U` (or `V`) representable over `U | V`.
-/
import NurbsVerif.Props.C17
import NurbsVerif.Proofs.Refine

namespace NV

/-- every value of a good knot vector is one of its distinct knots -/
theorem mem_v_mem_knots (k : KV) (g : GoodKV k) (hwf : WF k.v k.deg) (x : Rat) (hx : x ∈ k.v) : x ∈ k.knots := by
  rw [mem_knots k g]
  obtain ⟨i, hi, rfl⟩ := List.mem_iff_getElem.mp hx
  rw [← nth_eq_getElem k.v i hi]
  have hlen := g.ord.len
  have hpos : 0 < k.v.length := by omega
  by_cases h1 : i < k.deg
  · refine ⟨k.deg, le_refl _, le_of_lt g.deg_lt, ?_⟩
    have e := prefix_eq_head k.v hwf.sorted (k.deg + 1) i
      (by have := hwf.first; rw [headD_eq_nth] at this; exact this) (by omega)
    rw [e, ← umin_eq_first k.v k.deg hwf]
  · by_cases h2 : k.npts < i
    · refine ⟨k.npts, le_of_lt g.deg_lt, le_refl _, ?_⟩
      have e := suffix_eq_last k.v hwf.sorted (k.deg + 1) i
        (by have := hwf.last; rw [getLastD_eq_nth k.v hpos] at this; exact this) (by omega) hi
      have e2 := umax_eq_last k.v k.deg hwf
      rw [getLastD_eq_nth k.v hpos] at e2
      rw [e, ← e2]
      unfold KV.npts; rfl
    · exact ⟨i, by omega, by omega, rfl⟩

/-- **C17 (the union refines the left operand)**, equal degrees -/
theorem C17_union_refines_left (a b c : KV) (hwa : WF a.v a.deg) (hsep : Separated (a.v ++ b.v))
    (hdeg : a.deg = b.deg) (h : a.union b = .ok c) : Refines a c := by
  intro x
  by_cases hx : x ∈ a.v
  · have hsepA : Separated a.v := separated_of_subset _ _ hsep (fun y hy => by simp [hy])
    have ga : GoodKV a := by
      have := goodKV_of_WF a.v a.deg hwa hsepA
      cases a; exact this
    have hk : x ∈ a.knots ++ b.knots := by simp [mem_v_mem_knots a ga hwa x hx]
    -- the knots of both vectors are values of `a.v ++ b.v`
    have hsub : ∀ y ∈ a.knots ++ b.knots, y ∈ a.v ++ b.v := by
      intro y hy
      rcases List.mem_append.mp hy with h1 | h1
      · have := mem_getUnique_subset _ y (by rw [← knots_eq]; exact h1)
        simp [List.mem_of_mem_drop (List.mem_of_mem_take this)]
      · have := mem_getUnique_subset _ y (by rw [← knots_eq]; exact h1)
        simp [List.mem_of_mem_drop (List.mem_of_mem_take this)]
    have hu := mem_getUnique_of_separated (a.knots ++ b.knots) (a.v ++ b.v) hsub hsep x hk
    obtain ⟨i, hi, hxi⟩ := List.mem_iff_getElem.mp hu
    have hm := C17_union_mult a b c h i hi
    rw [hxi] at hm
    have hany : a.v.any (· == x) = true := by simp [hx]
    have hmult : a.multSingle x = cnt a.v x := by
      apply mult_spec
      intro y hy
      by_cases e : y = x
      · exact Or.inl e
      · right
        exact le_trans tol9_le_tol6 (hsepA x hx y hy (fun h => e h.symm))
    rw [hany, if_pos rfl, hmult, hdeg, Nat.max_self, Nat.add_sub_cancel] at hm
    rw [hm]
    exact le_max_left _ _
  · have : cnt a.v x = 0 := by rw [cnt_eq_count]; exact List.count_eq_zero_of_not_mem hx
    omega

/-- **C17 (the union refines the right operand)**, equal degrees -/
theorem C17_union_refines_right (a b c : KV) (hwb : WF b.v b.deg) (hsep : Separated (a.v ++ b.v))
    (hdeg : a.deg = b.deg) (h : a.union b = .ok c) : Refines b c := by
  intro x
  by_cases hx : x ∈ b.v
  · have hsepB : Separated b.v := separated_of_subset _ _ hsep (fun y hy => by simp [hy])
    have gb : GoodKV b := by
      have := goodKV_of_WF b.v b.deg hwb hsepB
      cases b; exact this
    have hk : x ∈ a.knots ++ b.knots := by simp [mem_v_mem_knots b gb hwb x hx]
    have hsub : ∀ y ∈ a.knots ++ b.knots, y ∈ a.v ++ b.v := by
      intro y hy
      rcases List.mem_append.mp hy with h1 | h1
      · have := mem_getUnique_subset _ y (by rw [← knots_eq]; exact h1)
        simp [List.mem_of_mem_drop (List.mem_of_mem_take this)]
      · have := mem_getUnique_subset _ y (by rw [← knots_eq]; exact h1)
        simp [List.mem_of_mem_drop (List.mem_of_mem_take this)]
    have hu := mem_getUnique_of_separated (a.knots ++ b.knots) (a.v ++ b.v) hsub hsep x hk
    obtain ⟨i, hi, hxi⟩ := List.mem_iff_getElem.mp hu
    have hm := C17_union_mult a b c h i hi
    rw [hxi] at hm
    have hany : b.v.any (· == x) = true := by simp [hx]
    have hmult : b.multSingle x = cnt b.v x := by
      apply mult_spec
      intro y hy
      by_cases e : y = x
      · exact Or.inl e
      · right
        exact le_trans tol9_le_tol6 (hsepB x hx y hy (fun h => e h.symm))
    rw [hany, if_pos rfl, hmult, ← hdeg, Nat.max_self] at hm
    have e : cnt b.v x + a.deg - a.deg = cnt b.v x := by omega
    rw [e] at hm
    rw [hm]
    exact le_max_right _ _
  · have : cnt b.v x = 0 := by rw [cnt_eq_count]; exact List.count_eq_zero_of_not_mem hx
    omega

end NV
