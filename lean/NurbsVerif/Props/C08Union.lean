/-
Props/C08Union.lean — the sum of two polynomial curves of equal degree, with the facts about the union vector derived
from the model's `union` instead of assumed: `(A + B)(u) = A(u) + B(u)` at every parameter whenever the model's `+`
succeeds.
-/
import NurbsVerif.Props.C17Refine
import NurbsVerif.Props.C08Add
import NurbsVerif.Props.C13

namespace NV
open Finset

theorem mem_replicateKnots (ks : List Rat) (ms : List Nat) (y : Rat) (hy : y ∈ KV.replicateKnots ks ms) : y ∈ ks := by
  induction ks generalizing ms with
  | nil => simp [KV.replicateKnots] at hy
  | cons k ks ih =>
    cases ms with
    | nil => simp [KV.replicateKnots] at hy
    | cons m ms =>
      simp only [KV.replicateKnots, List.mem_append] at hy
      rcases hy with h | h
      · rw [List.eq_of_mem_replicate h]; simp
      · exact List.mem_cons_of_mem _ (ih ms h)

/-- the values of `U | V` are values of `U` or of `V` -/
theorem union_values (a b c : KV) (h : a.union b = .ok c) : ∀ y ∈ c.v, y ∈ a.v ++ b.v := by
  simp only [KV.union] at h
  split at h
  · simp at h
  · split at h
    · simp at h
    · obtain ⟨_, hv, _⟩ := mk?_ok _ _ h
      intro y hy
      rw [hv, mem_isort] at hy
      have h1 := mem_replicateKnots _ _ y hy
      have h2 := mem_getUnique_subset _ y h1
      rcases List.mem_append.mp h2 with h3 | h3
      · have := mem_getUnique_subset _ y (by rw [← knots_eq]; exact h3)
        simp [List.mem_of_mem_drop (List.mem_of_mem_take this)]
      · have := mem_getUnique_subset _ y (by rw [← knots_eq]; exact h3)
        simp [List.mem_of_mem_drop (List.mem_of_mem_take this)]

theorem union_limits (a b c : KV) (h : a.union b = .ok c) : a.limits = b.limits := by
  simp only [KV.union] at h
  split at h
  · simp at h
  · rename_i hl; simpa using hl

/-- for equal degrees the union has that degree and is well formed -/
theorem union_wf_deg (a b c : KV) (hwa : WF a.v a.deg) (hwb : WF b.v b.deg) (hsep : Separated (a.v ++ b.v))
    (hdeg : a.deg = b.deg) (h : a.union b = .ok c) : WF c.v c.deg ∧ c.deg = a.deg ∧ Separated c.v := by
  have hvals := union_values a b c h
  have hsepC : Separated c.v := separated_of_subset _ _ hsep hvals
  have hinv := C17_union_valid a b c h
  have hwc : WF c.v c.deg := by rw [hinv.2]; exact isValid_WF c.v hsepC hinv.1
  refine ⟨hwc, ?_, hsepC⟩
  -- the first value of `c` is the common first value, with multiplicity `p + 1`
  have hlim := union_limits a b c h
  have hfa : nth a.v 0 = a.umin := (umin_eq_first a.v a.deg hwa).symm
  have hfb : nth b.v 0 = b.umin := (umin_eq_first b.v b.deg hwb).symm
  have hmin : a.umin = b.umin := by have := congrArg Prod.fst hlim; simpa [KV.limits] using this
  have hposa : 0 < a.v.length := by have := hwa.npts_gt; omega
  have hposb : 0 < b.v.length := by have := hwb.npts_gt; omega
  have hposc : 0 < c.v.length := by have := hwc.npts_gt; omega
  have hra := C17_union_refines_left a b c hwa hsep hdeg h
  have hca : cnt a.v (nth a.v 0) = a.deg + 1 := by have := hwa.first; rw [headD_eq_nth] at this; exact this
  have hin : nth a.v 0 ∈ c.v := by
    have : 0 < cnt c.v (nth a.v 0) := by have := hra (nth a.v 0); omega
    by_contra hc
    rw [cnt_eq_count, List.count_eq_zero_of_not_mem hc] at this
    omega
  have hall : ∀ y ∈ c.v, nth a.v 0 ≤ y := by
    intro y hy
    rcases List.mem_append.mp (hvals y hy) with h1 | h1
    · exact (mem_nth_bounds a.v hwa.sorted y h1).1
    · have := (mem_nth_bounds b.v hwb.sorted y h1).1
      rw [hfb, ← hmin, ← hfa] at this; exact this
  have hhead : nth c.v 0 = nth a.v 0 :=
    le_antisymm (mem_nth_bounds c.v hwc.sorted _ hin).1 (hall _ (nth_mem c.v 0 hposc))
  -- its multiplicity in `c`
  have hsepA : Separated a.v := separated_of_subset _ _ hsep (fun y hy => by simp [hy])
  have hsepB : Separated b.v := separated_of_subset _ _ hsep (fun y hy => by simp [hy])
  have ga : GoodKV a := by
    have := goodKV_of_WF a.v a.deg hwa hsepA
    cases a; exact this
  have hk : nth a.v 0 ∈ a.knots ++ b.knots := by
    simp [mem_v_mem_knots a ga hwa _ (nth_mem a.v 0 hposa)]
  have hsub : ∀ y ∈ a.knots ++ b.knots, y ∈ a.v ++ b.v := by
    intro y hy
    rcases List.mem_append.mp hy with h1 | h1
    · have := mem_getUnique_subset _ y (by rw [← knots_eq]; exact h1)
      simp [List.mem_of_mem_drop (List.mem_of_mem_take this)]
    · have := mem_getUnique_subset _ y (by rw [← knots_eq]; exact h1)
      simp [List.mem_of_mem_drop (List.mem_of_mem_take this)]
  have hu := mem_getUnique_of_separated (a.knots ++ b.knots) (a.v ++ b.v) hsub hsep _ hk
  obtain ⟨i, hi, hxi⟩ := List.mem_iff_getElem.mp hu
  have hm := C17_union_mult a b c h i hi
  rw [hxi] at hm
  have hanyA : a.v.any (· == nth a.v 0) = true := by simp [nth_mem a.v 0 hposa]
  have hb0 : nth a.v 0 = nth b.v 0 := by rw [hfa, hfb, hmin]
  have hanyB : b.v.any (· == nth a.v 0) = true := by rw [hb0]; simp [nth_mem b.v 0 hposb]
  have hmA : a.multSingle (nth a.v 0) = a.deg + 1 := by
    rw [← hca]
    apply mult_spec
    intro y hy
    by_cases e : y = nth a.v 0
    · exact Or.inl e
    · right
      exact le_trans tol9_le_tol6 (hsepA _ (nth_mem a.v 0 hposa) y hy (fun h => e h.symm))
  have hcb : cnt b.v (nth b.v 0) = b.deg + 1 := by have := hwb.first; rw [headD_eq_nth] at this; exact this
  have hmB : b.multSingle (nth a.v 0) = b.deg + 1 := by
    rw [hb0, ← hcb]
    apply mult_spec
    intro y hy
    by_cases e : y = nth b.v 0
    · exact Or.inl e
    · right
      exact le_trans tol9_le_tol6 (hsepB _ (nth_mem b.v 0 hposb) y hy (fun h => e h.symm))
  rw [hanyA, hanyB, if_pos rfl, if_pos rfl, hmA, hmB, ← hdeg, Nat.max_self] at hm
  have hcf := hwc.first
  rw [headD_eq_nth, hhead, hm] at hcf
  have : max (a.deg + 1 + a.deg - a.deg) (a.deg + 1 + a.deg - a.deg) = a.deg + 1 := by
    rw [Nat.max_self]; omega
  omega

/-- **C08 (sum of polynomial curves of equal degree).**  Whenever the model's `A + B` succeeds on polynomial curves of
equal degree (well-formed vectors, separated knot values, control points of one dimension), the result evaluates to
`A(u) + B(u)` at every parameter of the common interval. -/
theorem C08_add_equal_degree (a b s : Curve) (pa pb : List Vec) (d : Nat)
    (hPa : a.P = some pa) (hPb : b.P = some pb) (hWa : a.W = none) (hWb : b.W = none)
    (hla : pa.length = a.kv.npts) (hlb : pb.length = b.kv.npts)
    (hda : ∀ p ∈ pa, p.length = d) (hdb : ∀ p ∈ pb, p.length = d)
    (hwa : WF a.kv.v a.kv.deg) (hwb : WF b.kv.v b.kv.deg) (hsep : Separated (a.kv.v ++ b.kv.v))
    (hdeg : a.kv.deg = b.kv.deg) (h : a.addPoly b = .ok s) (u : Rat) (hu : a.kv.umin ≤ u ∧ u ≤ a.kv.umax) :
    ∃ va vb, a.eval u = .ok va ∧ b.eval u = .ok vb ∧ s.eval u = .ok (vadd va vb) := by
  -- the union vector
  have hc : ∃ c, a.kv.union b.kv = .ok c := by
    unfold Curve.addPoly at h
    simp only [bind, Except.bind] at h
    split at h
    · cases h
    · rename_i c hcu; exact ⟨c, hcu⟩
  obtain ⟨c, hunion⟩ := hc
  obtain ⟨hwc, hcd, hsepC⟩ := union_wf_deg a.kv b.kv c hwa hwb hsep hdeg hunion
  have hvals := union_values a.kv b.kv c hunion
  have hsep3 : Separated (a.kv.v ++ b.kv.v ++ c.v) := by
    apply separated_of_subset _ _ hsep
    intro y hy
    rcases List.mem_append.mp hy with h1 | h1
    · exact h1
    · exact hvals y h1
  have hrefa := C17_union_refines_left a.kv b.kv c hwa hsep hdeg hunion
  have hrefb := C17_union_refines_right a.kv b.kv c hwb hsep hdeg hunion
  -- the interval of the union is the common interval
  have hsepAC : Separated (a.kv.v ++ c.v) := separated_of_subset _ _ hsep3 (fun y hy => by
    rcases List.mem_append.mp hy with h1 | h1 <;> simp [h1])
  have hma : ∃ ma, matrixTransformation a.kv c = .ok ma := by
    unfold Curve.addPoly at h
    simp only [hunion, bind, Except.bind] at h
    split at h
    · cases h
    · rename_i ma hma; exact ⟨ma, hma⟩
  obtain ⟨ma, hma⟩ := hma
  have hrepA := matrixTransformation_repro a.kv c ma hwa hwc hsepAC hcd.symm hrefa hma
  exact C08_add_same_degree a b s c pa pb d hPa hPb hWa hWb hla hlb hda hdb hwa hwb hwc hsep3 hunion hcd.symm
    (hdeg ▸ hcd.symm) hrefa hrefb h u (by rw [hrepA.umin, hrepA.umax]; exact hu)

/-- **C13 (soundness of `==`), hypotheses on the union discharged.**  Polynomial curves of equal degree, separated knot
values: if `matrix_transformation` onto the union vector succeeds for both operands (a finite computation) and the
model's `==` answers True, the curves differ by at most 10⁻⁹ in every coordinate at every parameter. -/
theorem C13_eq_sound_equal_degree (a b : Curve) (c : KV) (Ma Mb : Mat) (pa pb : List Vec) (d : Nat)
    (hPa : a.P = some pa) (hPb : b.P = some pb) (hWa : a.W = none) (hWb : b.W = none)
    (hla : pa.length = a.kv.npts) (hlb : pb.length = b.kv.npts)
    (hda : ∀ p ∈ pa, p.length = d) (hdb : ∀ p ∈ pb, p.length = d)
    (hwa : WF a.kv.v a.kv.deg) (hwb : WF b.kv.v b.kv.deg) (hsep : Separated (a.kv.v ++ b.kv.v))
    (hdeg : a.kv.deg = b.kv.deg) (hunion : a.kv.union b.kv = .ok c)
    (hMa : matrixTransformation a.kv c = .ok Ma) (hMb : matrixTransformation b.kv c = .ok Mb)
    (h : a.eqPoly b = .ok true) (u : Rat) (hu : a.kv.umin ≤ u ∧ u ≤ a.kv.umax) :
    ∃ va vb, a.eval u = .ok va ∧ b.eval u = .ok vb ∧
      ∀ j, j < d → -tol9 ≤ va.getD j 0 - vb.getD j 0 ∧ va.getD j 0 - vb.getD j 0 ≤ tol9 := by
  obtain ⟨hwc, hcd, hsepC⟩ := union_wf_deg a.kv b.kv c hwa hwb hsep hdeg hunion
  have hvals := union_values a.kv b.kv c hunion
  have hsep3 : Separated (a.kv.v ++ b.kv.v ++ c.v) := by
    apply separated_of_subset _ _ hsep
    intro y hy
    rcases List.mem_append.mp hy with h1 | h1
    · exact h1
    · exact hvals y h1
  have hsepAC : Separated (a.kv.v ++ c.v) := separated_of_subset _ _ hsep3 (fun y hy => by
    rcases List.mem_append.mp hy with h1 | h1 <;> simp [h1])
  have hsepBC : Separated (b.kv.v ++ c.v) := separated_of_subset _ _ hsep3 (fun y hy => by
    rcases List.mem_append.mp hy with h1 | h1 <;> simp [h1])
  have hrepA := matrixTransformation_repro a.kv c Ma hwa hwc hsepAC hcd.symm
    (C17_union_refines_left a.kv b.kv c hwa hsep hdeg hunion) hMa
  have hrepB := matrixTransformation_repro b.kv c Mb hwb hwc hsepBC (hdeg ▸ hcd.symm)
    (C17_union_refines_right a.kv b.kv c hwb hsep hdeg hunion) hMb
  exact C13_eq_sound a b c Ma Mb pa pb d hPa hPb hWa hWb hla hlb hda hdb hwa hwb hwc hsep3 hunion hrepA hrepB h u
    (by rw [hrepA.umin, hrepA.umax]; exact hu)

end NV
