/-
Props/C14Degree.lean — property C14, the fixpoint part of `degree_clean`: every accepted `degree_decrease(1)` lowers the
degree by exactly one, so the loop (fuel `degree + 1`) cannot run out of iterations: it ends in a refused reduction, and
`degree_clean` applied to its own result changes nothing.
-/
import NurbsVerif.Props.C14Limits
import NurbsVerif.Props.C17Comm

namespace NV

theorem repeatList_one (l : List Rat) : KV.repeatList 1 l = l := by
  simp [KV.repeatList]

/-- an accepted reduction by one lowers the degree by one and keeps a well-formed vector with separated values -/
theorem degreeDecrease_one_degree (c c' : Curve) (tol : Option Rat) (hwf : WF c.kv.v c.kv.deg)
    (hsep : Separated c.kv.v) (h : c.degreeDecrease 1 tol = .ok c') :
    c'.kv.deg + 1 = c.kv.deg ∧ WF c'.kv.v c'.kv.deg ∧ Separated c'.kv.v := by
  have g : GoodKV c.kv := goodKV_of_WF c.kv.v c.kv.deg hwf hsep
  have hfirst : nth c.kv.v 0 = c.kv.umin := (umin_eq_first c.kv.v c.kv.deg hwf).symm
  unfold Curve.degreeDecrease at h
  simp only [bind, Except.bind] at h
  split at h
  · cases h
  · split at h
    · cases h
    · rename_i hdeg1
      have hd1 : 1 ≤ c.kv.deg := by omega
      split at h
      · cases h
      · rename_i newk hnk
        have hk := update_kv c newk tol _ c' h
        unfold KV.setDegree at hnk
        rw [if_pos (by omega)] at hnk
        have e1 : c.kv.deg - (c.kv.deg - 1) = 1 := by omega
        rw [e1, repeatList_one] at hnk
        simp only [KV.remove] at hnk
        split at hnk
        · cases hnk
        · rename_i l hl
          obtain ⟨hval, hv, hdg⟩ := mk?_ok _ newk hnk
          obtain ⟨hperm, hsub⟩ := removeAll_perm c.kv.knots c.kv.v l hl
          have hwf0 := isValid_WF_exact l hval
          -- the first value loses exactly one copy
          have hmemK : c.kv.umin ∈ c.kv.knots :=
            mem_v_mem_knots c.kv g hwf c.kv.umin (by rw [← hfirst]; exact nth_mem_of_lt _ 0 (by have := hwf.npts_gt; omega))
          have hcK : cnt c.kv.knots c.kv.umin = 1 := by
            rw [cnt_nodup _ (knots_nodup c.kv), if_pos hmemK]
          have hcV : cnt c.kv.v c.kv.umin = c.kv.deg + 1 := by
            have := hwf.first; rw [headD_eq_nth, hfirst] at this; exact this
          have hcL : cnt l c.kv.umin = c.kv.deg := by
            have := hperm.count_eq c.kv.umin
            rw [List.count_append, ← cnt_eq_count, ← cnt_eq_count, ← cnt_eq_count, hcK, hcV] at this
            omega
          have hmemL : c.kv.umin ∈ l := by
            by_contra cn
            have := cnt_eq_zero_of_forall_ne l c.kv.umin (fun y hy e => cn (e ▸ hy))
            omega
          have hposL : 0 < l.length := List.length_pos_of_mem hmemL
          have hheadL : nth l 0 = c.kv.umin := by
            apply le_antisymm
            · exact (sorted_bounds l hwf0.sorted _ hmemL).1
            · have hin : nth l 0 ∈ c.kv.v := hsub.subset (nth_mem_of_lt l 0 hposL)
              rw [← hfirst]; exact (sorted_bounds c.kv.v hwf.sorted _ hin).1
          have hnd : newk.deg + 1 = c.kv.deg := by
            rw [hdg, headD_eq_nth, hheadL, hcL]; omega
          rw [hk]
          refine ⟨hnd, ?_, ?_⟩
          · rw [hv, hdg]; exact hwf0
          · rw [hv]; exact separated_of_subset _ _ hsep (fun y hy => hsub.subset hy)

/-- the degree loop ends in a refused reduction (its fuel `degree + 1` cannot be used up) -/
theorem degreeCleanLoop_ends_refused : ∀ (f : Nat) (c : Curve) (tol : Rat), WF c.kv.v c.kv.deg → Separated c.kv.v →
    c.kv.deg < f → ∃ e, (Curve.degreeCleanLoop f c tol).degreeDecrease 1 (some tol) = .error e := by
  intro f
  induction f with
  | zero => intro c tol _ _ h; omega
  | succ f ih =>
    intro c tol hwf hsep h
    simp only [Curve.degreeCleanLoop]
    split
    · rename_i c1 hc1
      obtain ⟨d1, w1, s1⟩ := degreeDecrease_one_degree c c1 (some tol) hwf hsep hc1
      exact ih c1 tol w1 s1 (by omega)
    · rename_i e he
      exact ⟨e, he⟩

theorem degreeCleanLoop_of_refused (f : Nat) (c : Curve) (tol : Rat) (e : Err)
    (h : c.degreeDecrease 1 (some tol) = .error e) : Curve.degreeCleanLoop f c tol = c := by
  cases f with
  | zero => rfl
  | succ f => simp only [Curve.degreeCleanLoop, h]

/-- **C14: `degree_clean` is idempotent** (well-formed knot vector, separated values, any tolerance). -/
theorem C14_degreeClean_idempotent (c : Curve) (tol : Rat) (hwf : WF c.kv.v c.kv.deg) (hsep : Separated c.kv.v) :
    Curve.degreeClean (Curve.degreeClean c tol) tol = Curve.degreeClean c tol := by
  unfold Curve.degreeClean
  obtain ⟨e, he⟩ := degreeCleanLoop_ends_refused (c.kv.deg + 1) c tol hwf hsep (by omega)
  exact degreeCleanLoop_of_refused _ _ tol e he

/-- C06: a reduction by more than the degree is refused with ValueError -/
theorem C06_excess_times_rejected (c : Curve) (t : Nat) (tol : Option Rat) (h : c.kv.deg < t) :
    c.degreeDecrease t tol = .error .value := by
  unfold Curve.degreeDecrease
  have h0 : t ≠ 0 := by omega
  simp [h0, h, bind, Except.bind, throw, throwThe, MonadExceptOf.throw]

/-- C06: an accepted `degree_decrease(1)` lands one degree lower on a well-formed knot vector (for every tolerance) -/
theorem C06_decrease_one_degree (c c' : Curve) (tol : Option Rat) (hwf : WF c.kv.v c.kv.deg)
    (hsep : Separated c.kv.v) (h : c.degreeDecrease 1 tol = .ok c') :
    c'.kv.deg + 1 = c.kv.deg ∧ WF c'.kv.v c'.kv.deg :=
  ⟨(degreeDecrease_one_degree c c' tol hwf hsep h).1, (degreeDecrease_one_degree c c' tol hwf hsep h).2.1⟩

end NV
