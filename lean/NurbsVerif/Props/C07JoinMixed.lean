/-
Props/C07JoinMixed.lean — property C07, join of a polynomial curve with a rational one (equal degrees): the polynomial
operand enters with unit weights, `A | B` is the junction-cleaning of the concatenated curve with the weights
`1, …, 1, w_B`, and that curve restricts to both operands.  Reduction to `C07_join_concat_rational`: a polynomial curve
is the rational curve with unit weights (partition of unity), and the model's join of the two is literally the same value.
-/
import NurbsVerif.Props.C07JoinRat
import NurbsVerif.Props.C02Rat
import NurbsVerif.Props.C08

namespace NV
open Finset

theorem getD_replicate_one (n i : Nat) (hi : i < n) : (List.replicate n (1 : Rat)).getD i 0 = 1 := by
  simp [List.getD_eq_getElem?_getD, hi]

/-- unit weights do not change a row that sums to one -/
theorem ratRow_ones (row : List Rat) (n : Nat) (hr : row.length = n) (hsum : ∑ i ∈ range n, row.getD i 0 = 1) :
    ratRow (List.replicate n 1) row = row := by
  have hd : dot (List.replicate n 1) row = 1 := by
    rw [dot_eq_sum _ _ n (by simp) hr]
    have e : ∀ i ∈ range n, (List.replicate n (1 : Rat)).getD i 0 * row.getD i 0 = row.getD i 0 := by
      intro i hi
      simp only [mem_range] at hi
      rw [getD_replicate_one n i hi, one_mul]
    rw [sum_congr rfl e]
    exact hsum
  apply list_ext_getD
  · simp [ratRow, hr]
  · intro i hi
    have hi' : i < n := by simpa [ratRow, hr] using hi
    rw [ratRow_getD _ row n (by simp) hr i hi', hd, getD_replicate_one n i hi']
    simp

/-- a polynomial curve is the rational curve with unit weights -/
theorem curveDef_unit_weights (k : KV) (g : GoodKV k) (pts : List Vec) (u : Rat) (hu : k.umin ≤ u ∧ u ≤ k.umax) :
    curveDef k.v k.umax k.npts k.deg pts (some (List.replicate k.npts 1)) u
      = curveDef k.v k.umax k.npts k.deg pts none u := by
  unfold curveDef
  simp only []
  rw [ratRow_ones _ k.npts (by simp [cdbRow]) (cdbRow_sum_one k g u hu)]

/-- **C07 (join, polynomial | rational, equal degrees).** -/
theorem C07_join_concat_mixed_left (a b J : Curve) (pa pb : List Vec) (wb : List Rat) (d : Nat)
    (hPa : a.P = some pa) (hPb : b.P = some pb) (hWa : a.W = none) (hWb : b.W = some wb)
    (hla : pa.length = a.kv.npts) (hlb : pb.length = b.kv.npts) (hlwb : wb.length = b.kv.npts)
    (hposb : ∀ w ∈ wb, 0 < w)
    (hda : ∀ q ∈ pa, q.length = d) (hdb : ∀ q ∈ pb, q.length = d)
    (hwa : WF a.kv.v a.kv.deg) (hwb : WF b.kv.v b.kv.deg) (hdeg : a.kv.deg = b.kv.deg)
    (hsep : Separated (a.kv.v ++ b.kv.v)) (h : a.join b = .ok J) :
    ∃ cc : Curve, J = Curve.knotClean cc (some [nth b.kv.v 0]) tol9
      ∧ cc.kv.v = a.kv.v.take a.kv.npts ++ b.kv.v ∧ cc.P = some (pa ++ pb)
      ∧ cc.W = some (List.replicate a.kv.npts 1 ++ wb)
      ∧ (∀ u, a.kv.umin ≤ u → u < a.kv.umax → cc.eval u = a.eval u)
      ∧ (∀ u, b.kv.umin ≤ u → u ≤ b.kv.umax → cc.eval u = b.eval u) := by
  set a1 : Curve := ⟨a.kv, a.P, some (List.replicate a.kv.npts 1)⟩ with ha1
  have hr : max a.kv.deg b.kv.deg = a.kv.deg := by rw [hdeg]; exact Nat.max_self _
  have hjoin : a1.join b = a.join b := by
    unfold Curve.join
    have hsa : a.setDegree (max a.kv.deg b.kv.deg) = .ok a := by unfold Curve.setDegree; rw [hr]; simp
    have hsa1 : a1.setDegree (max a.kv.deg b.kv.deg) = .ok a1 := by unfold Curve.setDegree; rw [hr]; simp [ha1]
    have hsb : b.setDegree (max a.kv.deg b.kv.deg) = .ok b := by unfold Curve.setDegree; rw [hr, hdeg]; simp
    have e1 : a1.kv = a.kv := rfl
    simp only [e1, hsa, hsa1, hsb, bind, Except.bind, pure, Except.pure]
    simp [ha1, hWa, hWb, Curve.npts]
  have hpos1 : ∀ w ∈ List.replicate a.kv.npts (1 : Rat), 0 < w := by
    intro w hw; rw [List.eq_of_mem_replicate hw]; norm_num
  obtain ⟨cc, hJ, hkv, hP, hW, hA, hB⟩ := C07_join_concat_rational a1 b J pa pb (List.replicate a.kv.npts 1) wb d
    hPa hPb rfl hWb hla hlb (by simp [ha1]) hlwb hpos1 hposb hda hdb hwa hwb hdeg hsep (by rw [hjoin]; exact h)
  refine ⟨cc, hJ, hkv, hP, hW, ?_, hB⟩
  intro u hu1 hu2
  rw [hA u hu1 hu2]
  have hsepA : Separated a.kv.v := separated_of_subset _ _ hsep (fun y hy => by simp [hy])
  have gA : GoodKV a.kv := goodKV_of_WF a.kv.v a.kv.deg hwa hsepA
  rw [C01_eval_eq_def_positive a1 pa u hPa hwa hsepA ⟨hu1, le_of_lt hu2⟩
      (by intro ws hws; cases hws; exact ⟨by simp [ha1], hpos1⟩),
    C01_eval_eq_def_positive a pa u hPa hwa hsepA ⟨hu1, le_of_lt hu2⟩
      (by intro ws hws; rw [hWa] at hws; cases hws)]
  congr 1
  rw [hWa]
  exact curveDef_unit_weights a.kv gA pa u ⟨hu1, le_of_lt hu2⟩

/-- **C07 (join, rational | polynomial, equal degrees).** -/
theorem C07_join_concat_mixed_right (a b J : Curve) (pa pb : List Vec) (wa : List Rat) (d : Nat)
    (hPa : a.P = some pa) (hPb : b.P = some pb) (hWa : a.W = some wa) (hWb : b.W = none)
    (hla : pa.length = a.kv.npts) (hlb : pb.length = b.kv.npts) (hlwa : wa.length = a.kv.npts)
    (hposa : ∀ w ∈ wa, 0 < w)
    (hda : ∀ q ∈ pa, q.length = d) (hdb : ∀ q ∈ pb, q.length = d)
    (hwa : WF a.kv.v a.kv.deg) (hwb : WF b.kv.v b.kv.deg) (hdeg : a.kv.deg = b.kv.deg)
    (hsep : Separated (a.kv.v ++ b.kv.v)) (h : a.join b = .ok J) :
    ∃ cc : Curve, J = Curve.knotClean cc (some [nth b.kv.v 0]) tol9
      ∧ cc.kv.v = a.kv.v.take a.kv.npts ++ b.kv.v ∧ cc.P = some (pa ++ pb)
      ∧ cc.W = some (wa ++ List.replicate b.kv.npts 1)
      ∧ (∀ u, a.kv.umin ≤ u → u < a.kv.umax → cc.eval u = a.eval u)
      ∧ (∀ u, b.kv.umin ≤ u → u ≤ b.kv.umax → cc.eval u = b.eval u) := by
  set b1 : Curve := ⟨b.kv, b.P, some (List.replicate b.kv.npts 1)⟩ with hb1
  have hr : max a.kv.deg b.kv.deg = a.kv.deg := by rw [hdeg]; exact Nat.max_self _
  have hjoin : a.join b1 = a.join b := by
    unfold Curve.join
    have hsa : a.setDegree (max a.kv.deg b.kv.deg) = .ok a := by unfold Curve.setDegree; rw [hr]; simp
    have hsb : b.setDegree (max a.kv.deg b.kv.deg) = .ok b := by unfold Curve.setDegree; rw [hr, hdeg]; simp
    have hsb1 : b1.setDegree (max a.kv.deg b.kv.deg) = .ok b1 := by unfold Curve.setDegree; rw [hr, hdeg]; simp [hb1]
    have e1 : b1.kv = b.kv := rfl
    simp only [e1, hsa, hsb, hsb1, bind, Except.bind, pure, Except.pure]
    simp [hb1, hWa, hWb, Curve.npts]
  have hpos1 : ∀ w ∈ List.replicate b.kv.npts (1 : Rat), 0 < w := by
    intro w hw; rw [List.eq_of_mem_replicate hw]; norm_num
  obtain ⟨cc, hJ, hkv, hP, hW, hA, hB⟩ := C07_join_concat_rational a b1 J pa pb wa (List.replicate b.kv.npts 1) d
    hPa hPb hWa rfl hla hlb hlwa (by simp [hb1]) hposa hpos1 hda hdb hwa hwb hdeg hsep (by rw [hjoin]; exact h)
  refine ⟨cc, hJ, hkv, hP, hW, hA, ?_⟩
  intro u hu1 hu2
  rw [hB u hu1 hu2]
  have hsepB : Separated b.kv.v := separated_of_subset _ _ hsep (fun y hy => by simp [hy])
  have gB : GoodKV b.kv := goodKV_of_WF b.kv.v b.kv.deg hwb hsepB
  rw [C01_eval_eq_def_positive b1 pb u hPb hwb hsepB ⟨hu1, hu2⟩
      (by intro ws hws; cases hws; exact ⟨by simp [hb1], hpos1⟩),
    C01_eval_eq_def_positive b pb u hPb hwb hsepB ⟨hu1, hu2⟩
      (by intro ws hws; rw [hWb] at hws; cases hws)]
  congr 1
  rw [hWb]
  exact curveDef_unit_weights b.kv gB pb u ⟨hu1, hu2⟩

end NV
