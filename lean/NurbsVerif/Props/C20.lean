/-
Props/C20.lean — property C20 (logic part): the exact crossing oracle for two straight segments
is sound and complete.  The float Newton iteration of `Intersection.curve_and_curve` is validated
per input against this oracle.
-/
import NurbsVerif.Proofs.Geom
import NurbsVerif.Proofs.Hull

namespace NV

/-- **C20 (2×2 solve).**  With a non-zero determinant the linear system has exactly the solution Cramer's
rule computes. -/
theorem C20_cramer (a11 a12 a21 a22 r1 r2 : Rat) (hdet : a11 * a22 - a12 * a21 ≠ 0) (t u : Rat) :
    (a11 * t + a12 * u = r1 ∧ a21 * t + a22 * u = r2) ↔
      (t = (r1 * a22 - a12 * r2) / (a11 * a22 - a12 * a21) ∧ u = (a11 * r2 - a21 * r1) / (a11 * a22 - a12 * a21)) :=
  cramer a11 a12 a21 a22 r1 r2 hdet t u

/-- **C20 (segment pair).**  For two straight pieces with independent directions, a pair of parameters inside
both ranges is a meeting pair `A(t) = B(u)` **iff** it is the pair the oracle reports: no crossing is missed and
nothing else is reported. -/
theorem C20_segment_pair (pa pb : Piece)
    (hax : (pa.num.getD 0 []).length ≤ 2) (hay : (pa.num.getD 1 []).length ≤ 2)
    (hbx : (pb.num.getD 0 []).length ≤ 2) (hby : (pb.num.getD 1 []).length ≤ 2)
    (hdet : nth (pa.num.getD 0 []) 1 * -(nth (pb.num.getD 1 []) 1) - -(nth (pb.num.getD 0 []) 1) * nth (pa.num.getD 1 []) 1 ≠ 0)
    (t u : Rat) (ht : pa.a ≤ t ∧ t ≤ pa.b) (hu : pb.a ≤ u ∧ u ≤ pb.b) :
    (horner (pa.num.getD 0 []) t = horner (pb.num.getD 0 []) u ∧ horner (pa.num.getD 1 []) t = horner (pb.num.getD 1 []) u)
      ↔ (segCross pa pb).sol = some (t, u) :=
  segCross_iff pa pb hax hay hbx hby hdet t u ht hu

/-- **C20 (bounding boxes).**  Polynomial B-spline curves stay inside the bounding box of their control points
(non-negativity + partition of unity), so if in some coordinate all control values of `A` are at most `m` and
all control values of `B` exceed `m`, no pair of parameters is a meeting pair: rejecting such pairs of Bézier
pieces loses no intersection. -/
theorem C20_disjoint_boxes_no_meeting (ka kb : KV) (hka : Ordered ka) (hkb : Ordered kb)
    (sa sb : Nat) (t u : Rat) (hpa : ka.deg ≤ sa) (hsa : sa < ka.npts) (hpb : kb.deg ≤ sb) (hsb : sb < kb.npts)
    (hta : InSpan (nth ka.v) ka.umax sa t) (hub : InSpan (nth kb.v) kb.umax sb u)
    (va vb : Nat → Rat) (m lo : Rat)
    (hAlo : ∀ i, i < ka.npts → lo ≤ va i) (hA : ∀ i, i < ka.npts → va i ≤ m) (hB : ∀ i, i < kb.npts → m < vb i) :
    (Finset.range ka.npts).sum (fun i => cdb ka.v ka.umax i ka.deg t * va i)
      < (Finset.range kb.npts).sum (fun i => cdb kb.v kb.umax i kb.deg u * vb i) :=
  disjoint_boxes_no_meeting ka kb hka hkb sa sb t u hpa hsa hpb hsb hta hub va vb m lo hAlo hA hB

/-! non-vacuity: the diagonals of the square cross at (1/2, 1/2) -/
example : (segCross ⟨0, 1, [[0, 2], [0, 2]], [1]⟩ ⟨0, 1, [[0, 2], [2, -2]], [1]⟩).sol = some (mkRat 1 2, mkRat 1 2) := by
  decide +kernel

end NV
