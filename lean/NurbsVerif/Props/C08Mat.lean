/-
Props/C08Mat.lean — property C08, the matrix forms `M @ A` and `A @ M` (polynomial curves): the control points are mapped
by `p ↦ M p` (resp. `p ↦ Mᵀ p`) and the value at every parameter is the mapped value — same success, same error.
Corollaries of `C16_eval_linear` (evaluation uses the points only through linear combinations).
-/
import NurbsVerif.Props.C16Linear

namespace NV

theorem matLeft_eq_linMap (c c' : Curve) (m : Mat) (h : c.matLeft m = .ok c') : c' = Curve.linMap m c := by
  unfold Curve.matLeft Curve.mapPts at h
  split at h
  · cases h
  · rename_i pts hP
    simp only [Except.ok.injEq] at h
    subst h
    simp [Curve.linMap, hP]

theorem matRight_eq_linMap (c c' : Curve) (m : Mat) (h : c.matRight m = .ok c') :
    c' = Curve.linMap (transpose m) c := by
  unfold Curve.matRight Curve.mapPts at h
  split at h
  · cases h
  · rename_i pts hP
    simp only [Except.ok.injEq] at h
    subst h
    simp [Curve.linMap, hP]

/-- **C08 (`M @ A`).**  `(M @ A)(u) = M · A(u)` at every parameter; outside the interval both sides are the same error. -/
theorem C08_matLeft (c c' : Curve) (m : Mat) (pts : List Vec) (d : Nat) (u : Rat)
    (hP : c.P = some pts) (hW : c.W = none) (hlen : pts.length = c.kv.npts) (hpos : 0 < c.kv.npts)
    (hd : ∀ p ∈ pts, p.length = d) (h : c.matLeft m = .ok c') :
    c'.eval u = (c.eval u).map (matVec m) := by
  rw [matLeft_eq_linMap c c' m h]
  exact C16_eval_linear m c pts d u hP hW hlen hpos hd

/-- **C08 (`A @ M`).**  `(A @ M)(u) = A(u) · M = Mᵀ · A(u)` at every parameter. -/
theorem C08_matRight (c c' : Curve) (m : Mat) (pts : List Vec) (d : Nat) (u : Rat)
    (hP : c.P = some pts) (hW : c.W = none) (hlen : pts.length = c.kv.npts) (hpos : 0 < c.kv.npts)
    (hd : ∀ p ∈ pts, p.length = d) (h : c.matRight m = .ok c') :
    c'.eval u = (c.eval u).map (matVec (transpose m)) := by
  rw [matRight_eq_linMap c c' m h]
  exact C16_eval_linear (transpose m) c pts d u hP hW hlen hpos hd

/-- a curve without control points has no matrix multiple: ValueError -/
theorem C08_mat_no_points (c : Curve) (m : Mat) (hP : c.P = none) :
    c.matLeft m = .error .value ∧ c.matRight m = .error .value := by
  simp [Curve.matLeft, Curve.matRight, Curve.mapPts, hP]

end NV
