/-
Props/C07Weights.lean — property C07, the weights of the pieces: every matrix returned by `split_curve` is a block of
rows of the knot-insertion matrix, hence maps positive weights to positive weights; so the pieces of a rational curve
with positive weights carry positive weights (the `weights` setter of each piece accepts them, no weight is zero).
-/
import NurbsVerif.Proofs.InsertPos
import NurbsVerif.Props.C07Pos

namespace NV

theorem posPres_drop_take (M : Mat) (n lo cnt : Nat) (h : PosPres M n) : PosPres ((M.drop lo).take cnt) n := by
  intro f hf hpos w hw
  have hsub : ∀ w, w ∈ matVec ((M.drop lo).take cnt) f → w ∈ matVec M f := by
    intro w hw
    unfold matVec at hw ⊢
    rw [List.mem_map] at hw ⊢
    obtain ⟨row, hrow, rfl⟩ := hw
    exact ⟨row, List.mem_of_mem_drop (List.mem_of_mem_take hrow), rfl⟩
  exact h f hf hpos w (hsub w hw)

/-- every block returned by `split_curve` is positivity preserving -/
theorem splitCurveMats_posPres (k : KV) (ns : List Rat) (mats : List Mat) (hwf : WF k.v k.deg)
    (hsep : Separated (k.v ++ ns)) (h : splitCurveMats k ns = .ok mats) :
    ∀ m ∈ mats, PosPres m k.npts := by
  have hfirst : nth k.v 0 = k.umin := (umin_eq_first k.v k.deg hwf).symm
  have hlast : k.v.getLastD 0 = k.umax := by
    have := umax_eq_last k.v k.deg hwf; unfold KV.umax KV.npts; exact this.symm
  unfold splitCurveMats at h
  simp only [bind, Except.bind, pure, Except.pure] at h
  split at h
  · cases h
  · split at h
    · cases h
    · rename_i big hins
      split at h
      · cases h
      · rename_i bigM hm
        split at h
        · cases h
        · rename_i piecesB hsp
          set cuts' := dedup (ns.filter fun nd => !(nd == nth k.v 0) && !(nd == k.v.getLastD 0)) with hcuts
          set many := cuts'.flatMap fun nd => List.replicate (k.deg + 1 - k.multSingle nd) nd with hmanydef
          have hmemc : ∀ x, x ∈ cuts' → x ∈ ns := by
            intro x hx
            rw [hcuts, mem_dedup, List.mem_filter] at hx
            exact hx.1
          have hmany : ∀ x ∈ many, x ∈ cuts' := by
            intro x hx
            rw [hmanydef, List.mem_flatMap] at hx
            obtain ⟨nd, hnd, hx⟩ := hx
            rw [List.eq_of_mem_replicate hx]; exact hnd
          have hsepM : Separated (k.v ++ many) := by
            apply separated_of_subset _ _ hsep
            intro y hy
            rw [List.mem_append] at hy ⊢
            rcases hy with hy | hy
            · exact Or.inl hy
            · exact Or.inr (hmemc y (hmany y hy))
          have hpp := knotInsertMat_posPres k many bigM hwf hsepM hm
          intro m hmem
          obtain ⟨hlenO, hzO⟩ := mapM_ok_zip _ _ mats h
          obtain ⟨pc, _, hz⟩ := mem_zip_of_mem_right _ mats hlenO m hmem
          have hmk := hzO pc m hz
          split at hmk
          · cases hmk
          · simp only [Except.ok.injEq] at hmk
            rw [← hmk]
            exact posPres_drop_take bigM k.npts _ _ hpp

/-- **C07 (weights of the pieces).**  The pieces of a rational curve with positive weights have positive weights. -/
theorem C07_split_weights_positive (c : Curve) (ns : List Rat) (out : List Curve) (pts : List Vec) (ws : List Rat)
    (hP : c.P = some pts) (hW : c.W = some ws) (hwl : ws.length = c.kv.npts) (hwpos : ∀ w ∈ ws, 0 < w)
    (hwf : WF c.kv.v c.kv.deg) (hsep : Separated (c.kv.v ++ ns)) (h : c.split (some ns) = .ok out) :
    ∀ piece ∈ out, ∃ ws', piece.W = some ws' ∧ ∀ w ∈ ws', 0 < w := by
  intro piece hpiece
  unfold Curve.split at h
  simp only [bind, Except.bind] at h
  split at h
  · cases h
  · rename_i pieces hps
    split at h
    · cases h
    · rename_i mats hmats
      rw [hP] at h
      simp only [] at h
      have hpp := splitCurveMats_posPres c.kv ns mats hwf hsep hmats
      obtain ⟨hlenO, hzO⟩ := mapM_ok_zip _ _ out h
      obtain ⟨pm, hpm, hz⟩ := mem_zip_of_mem_right _ out hlenO piece hpiece
      have hmk := hzO pm piece hz
      obtain ⟨pk, m⟩ := pm
      rw [hW] at hmk
      simp only [] at hmk
      split at hmk
      · cases hmk
      · have hpc := (mk?_spec _ _ _ _ hmk).1
        have hm : m ∈ mats := (List.of_mem_zip hpm).2
        exact ⟨matVec m ws, by rw [hpc], hpp m hm ws hwl hwpos⟩

end NV
