/-
Props/C09Shift.lean — C09, the derivative curve on its own knots: `Derivate` puts the control values `q = D f` on the
knot vector without its first and last entry.  Over the shifted knot function `u_{k+1}` the degree `p−1` functions are
the `N_{r+1,p−1}` of the original vector (shift invariance), so the polynomial derivative of the piece of `C` on span
`sz` is the piece of the derivative curve on its span `sz − 1`.
-/
import NurbsVerif.Props.C09
import NurbsVerif.Props.C07

open Polynomial
namespace NV

theorem Npoly_shift (t : Nat → Rat) (lo : Nat) : ∀ j sz i,
    Npoly (fun k => t (k + lo)) sz i j = Npoly t (sz + lo) (i + lo) j := by
  intro j
  induction j with
  | zero =>
    intro sz i
    simp only [Npoly]
    by_cases h : i = sz
    · subst h; simp
    · have : ¬ i + lo = sz + lo := by omega
      simp [h, this]
  | succ j ih =>
    intro sz i
    simp only [Npoly, Acoef]
    rw [ih sz i, ih sz (i + 1)]
    have e1 : i + j + 1 + lo = i + lo + j + 1 := by omega
    have e2 : i + j + 2 + lo = i + lo + j + 2 := by omega
    have e3 : i + 1 + lo = i + lo + 1 := by omega
    have e4 : i + 1 + j + 1 + lo = i + lo + 1 + j + 1 := by omega
    rw [e1, e2, e3, e4]

/-- **C09 (the derivative curve on its own knot vector).**  With `q = D f` placed on the knots `u_1, u_2, …`
(the vector without its first entry), the piece of the derivative curve on its span `sz − 1` is the polynomial derivative
of the piece of `C` on span `sz`. -/
theorem C09_derivative_curve_piece (k : KV) (p' : Nat) (hp : k.deg = p' + 1) (sz : Nat)
    (hm : MonoUpTo (nth k.v) (k.v.length - 1)) (hlen : k.npts + k.deg + 1 = k.v.length)
    (hsz : k.deg ≤ sz) (hszn : sz < k.npts) (f : List Rat) (hf : f.length = k.npts) :
    derivative (spanPoly (nth k.v) sz k.deg (fun i => f.getD i 0))
      = spanPoly (fun i => nth k.v (i + 1)) (sz - 1) p' (fun r => (matVec (derivSplineMat k) f).getD r 0) := by
  rw [C09_derivative_piece k p' hp sz hm hlen hsz hszn f hf]
  unfold spanPoly
  have e : sz - 1 + 1 = sz := by omega
  rw [e]
  apply Finset.sum_congr rfl
  intro r _
  rw [Npoly_shift (nth k.v) 1 p' (sz - 1) r]
  have e2 : sz - 1 + 1 = sz := by omega
  rw [e2]

end NV
