/-
Props/C19.lean — property C19 (logic part): the exact nearest-point oracle for polylines is optimal
and attained; Newton's map on a straight piece reaches the foot point in one step.  The float
iteration of `Projection.point_on_curve` itself is validated per input against this oracle.
-/
import NurbsVerif.Proofs.Geom

namespace NV

/-- the squared distance from `pt` to the piece, as a polynomial in the parameter -/
theorem C19_sqdist_semantics (pc : Piece) (pt : Vec) (u : Rat) :
    horner (sqDistPoly pc pt) u = ((pc.num.zip pt).map fun nx => (horner nx.1 u - nx.2) ^ 2).sum :=
  horner_sqDistPoly pc pt u

/-- **C19 (one segment).**  On `[a, b]` the oracle's parameter lies in the interval, its value is the squared
distance there, and no parameter of the interval is closer. -/
theorem C19_segment_optimal (q : Poly) (a b : Rat) (hq : quadShapeOK q = true) (hab : a ≤ b) :
    a ≤ (quadMin q a b).2 ∧ (quadMin q a b).2 ≤ b ∧ (quadMin q a b).1 = horner q (quadMin q a b).2
      ∧ ∀ u, a ≤ u → u ≤ b → (quadMin q a b).1 ≤ horner q u := quadMin_optimal q a b hq hab

/-- **C19 (polyline).**  The reported minimum is a lower bound for the squared distance at every parameter of
every piece … -/
theorem C19_polyline_lower_bound (f : RF) (pt : Vec) (d0 : Rat)
    (hok : ∀ pc ∈ f, quadShapeOK (sqDistPoly pc pt) = true ∧ pc.a ≤ pc.b)
    (pc : Piece) (hpc : pc ∈ f) (u : Rat) (hu1 : pc.a ≤ u) (hu2 : u ≤ pc.b) :
    minOf d0 (nearestCands f pt) ≤ horner (sqDistPoly pc pt) u :=
  nearest_lower_bound f pt d0 hok pc hpc u hu1 hu2

/-- … and every candidate (in particular the reported minimisers) is attained on its own piece. -/
theorem C19_polyline_attained (f : RF) (pt : Vec)
    (hok : ∀ pc ∈ f, quadShapeOK (sqDistPoly pc pt) = true ∧ pc.a ≤ pc.b)
    (c : Rat × Rat) (hc : c ∈ nearestCands f pt) :
    ∃ pc ∈ f, pc.a ≤ c.2 ∧ c.2 ≤ pc.b ∧ c.1 = horner (sqDistPoly pc pt) c.2 :=
  nearest_attained f pt hok c hc

/-- **C19 (Newton on a straight piece).**  One step from any start is the foot point. -/
theorem C19_newton_linear_one_step (p d P u0 : Rat) (hd : d ≠ 0) :
    let f := fun u => d * (p + u * d - P)
    let u1 := u0 - f u0 / (d * d)
    f u1 = 0 := newton_linear_one_step p d P u0 hd

/-! non-vacuity: the squared distance from (1, 3) to the segment (0,0)–(2,0) has the required shape;
its minimum over [0, 1] is 9 at u = 1/2 -/
example : quadShapeOK (sqDistPoly ⟨0, 1, [[0, 2], [0]], [1]⟩ [1, 3]) = true
    ∧ quadMin (sqDistPoly ⟨0, 1, [[0, 2], [0]], [1]⟩ [1, 3]) 0 1 = (9, mkRat 1 2) := by decide +kernel

end NV
