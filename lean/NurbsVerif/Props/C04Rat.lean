/-
Props/C04Rat.lean — property C04, functional part for **rational** curves: the weights and the homogeneous points
are inserted with the same matrix, the new points are divided by the new weights; the value `Σ R_i(u) P_i` is
unchanged at every parameter where the weight function does not vanish.
-/
import NurbsVerif.Props.C04Eval

namespace NV
open Finset

theorem getD_zipWith (f : Rat → Rat → Rat) (a b : List Rat) (n : Nat) (ha : a.length = n) (hb : b.length = n)
    (i : Nat) (hi : i < n) : (List.zipWith f a b).getD i 0 = f (a.getD i 0) (b.getD i 0) := by
  have h1 : i < a.length := by omega
  have h2 : i < b.length := by omega
  simp [List.getD_eq_getElem?_getD, List.getElem?_zipWith, h1, h2]

theorem coordCol_zipWith_vscale (g : Rat → Rat) (ws : List Rat) (Q : List Vec) (j : Nat) :
    coordCol (List.zipWith (fun w p => vscale (g w) p) ws Q) j
      = List.zipWith (fun w q => g w * q) ws (coordCol Q j) := by
  induction ws generalizing Q with
  | nil => simp [coordCol]
  | cons w ws ih =>
    cases Q with
    | nil => simp [coordCol]
    | cons q Q =>
      have := ih Q
      simp only [coordCol] at this ⊢
      simp only [List.zipWith_cons_cons, List.map_cons, this, vscale_getD]

theorem zipWith_vscale_dims (g : Rat → Rat) (ws : List Rat) (Q : List Vec) (d : Nat) (hd : ∀ q ∈ Q, q.length = d) :
    ∀ q ∈ List.zipWith (fun w p => vscale (g w) p) ws Q, q.length = d := by
  induction ws generalizing Q with
  | nil => simp
  | cons w ws ih =>
    cases Q with
    | nil => simp
    | cons q Q =>
      intro x hx
      simp only [List.zipWith_cons_cons, List.mem_cons] at hx
      rcases hx with rfl | hx
      · simp [vscale, hd q (by simp)]
      · exact ih Q (fun y hy => hd y (by simp [hy])) x hx

/-- the value of a rational combination, coordinate by coordinate -/
theorem dot_ratRow (ws row col : List Rat) (n : Nat) (hw : ws.length = n) (hr : row.length = n) (hc : col.length = n) :
    dot (ratRow ws row) col = (∑ i ∈ range n, row.getD i 0 * (ws.getD i 0 * col.getD i 0)) / dot ws row := by
  unfold ratRow
  simp only []
  rw [dot_eq_sum _ col n (by simp [hw, hr]) hc, div_eq_mul_inv, Finset.sum_mul]
  apply sum_congr rfl
  intro i hi
  simp only [mem_range] at hi
  rw [getD_zipWith _ ws row n hw hr i hi]
  ring

/-- **C04 (the curve is unchanged), rational curves.** -/
theorem C04_insert_preserves_eval_rational (c c' : Curve) (nodes : List Rat) (pts : List Vec) (ws : List Rat) (d : Nat)
    (hP : c.P = some pts) (hW : c.W = some ws) (hlen : pts.length = c.kv.npts) (hwl : ws.length = c.kv.npts)
    (hdim : ∀ p ∈ pts, p.length = d)
    (hwf : WF c.kv.v c.kv.deg) (hsep : Separated (c.kv.v ++ nodes))
    (h : c.knotInsert nodes = .ok c') (u : Rat) (hu : c.kv.umin ≤ u ∧ u ≤ c.kv.umax)
    (hden : dot (cdbRow c.kv.v c.kv.umax c.kv.npts c.kv.deg u) ws ≠ 0) :
    c'.eval u = c.eval u := by
  unfold Curve.knotInsert at h
  simp only [bind, Except.bind] at h
  split at h
  · cases h
  · rename_i newk hins
    split at h
    · cases h
    · rename_i hdeg
      simp only [bne_iff_ne, ne_eq, Decidable.not_not] at hdeg
      split at h
      · cases h
      · rename_i m hm
        obtain ⟨kf, hrep, hwff, hkfv⟩ := knotInsertMat_reached c.kv nodes m hwf hsep hm
        rw [accepted_nodes_interior c.kv newk nodes hwf hins hdeg] at hkfv
        have hnewv : newk.v = isort (c.kv.v ++ nodes) := by
          unfold KV.insert at hins
          split at hins
          · cases hins
          · exact (mk?_ok _ _ hins).2.1
        have hkf : kf = newk := by
          cases kf; cases newk
          simp only at hkfv hnewv hdeg
          have := hrep.deg
          simp only at this
          simp [hkfv, hnewv, this, hdeg]
        subst hkf
        -- the new curve
        unfold Curve.apply at h
        rw [hP, hW] at h
        simp only [bind, Except.bind] at h
        split at h
        · cases h
        · split at h
          · cases h
          · rename_i hnz
            have hc' := (mk?_spec _ _ _ _ h).1
            have hn0 : 0 < c.kv.npts := by have := hwf.npts_gt; unfold KV.npts; omega
            have hnf : 0 < kf.npts := by have := hwff.npts_gt; unfold KV.npts; omega
            have hsepU : Separated c.kv.v := separated_of_subset _ _ hsep (fun y hy => by simp [hy])
            have hsepK : Separated kf.v := by
              apply separated_of_subset _ _ hsep
              intro y hy; rw [hkfv, mem_isort] at hy; exact hy
            have hu' : kf.umin ≤ u ∧ u ≤ kf.umax := by rw [hrep.umin, hrep.umax]; exact hu
            -- the denominator is reproduced
            have hden' : dot (cdbRow kf.v kf.umax kf.npts kf.deg u) (matVec m ws)
                = dot (cdbRow c.kv.v c.kv.umax c.kv.npts c.kv.deg u) ws := hrep.repro ws hwl u hu
            rw [hc']
            rw [C01_eval_eq_def_WF _ _ u rfl hwff hsepK hu'
                (by intro ws2 hws2; simp only [Option.some.injEq] at hws2; rw [← hws2, hden']; exact hden),
              C01_eval_eq_def_WF c pts u hP hwf hsepU hu (by intro ws2 hws2; rw [hW] at hws2; cases hws2; exact hden)]
            congr 1
            rw [hW]
            unfold curveDef
            simp only []
            -- shapes
            set row' := cdbRow kf.v kf.umax kf.npts kf.deg u with hrow'
            set row := cdbRow c.kv.v c.kv.umax c.kv.npts c.kv.deg u with hrow
            set ws' := matVec m ws with hws'
            set Q := matPts m (Curve.weighted ws pts) with hQ
            have lrow' : row'.length = kf.npts := by simp [hrow', cdbRow]
            have lrow : row.length = c.kv.npts := by simp [hrow, cdbRow]
            have lws' : ws'.length = kf.npts := by rw [hws', matVec_length, hrep.shaped.1]
            have lwp : (Curve.weighted ws pts).length = c.kv.npts := by simp [Curve.weighted, hwl, hlen]
            have dwp : ∀ q ∈ Curve.weighted ws pts, q.length = d := by
              unfold Curve.weighted
              have := zipWith_vscale_dims (fun w => w) ws pts d hdim
              simpa using this
            have lQ : Q.length = kf.npts := by simp [hQ, matPts, hrep.shaped.1]
            have dQ := matPts_dims m (Curve.weighted ws pts) d _ _ hrep.shaped lwp hn0 dwp
            have lP' : (Curve.unweighted ws' Q).length = kf.npts := by simp [Curve.unweighted, lws', lQ]
            have dP' : ∀ q ∈ Curve.unweighted ws' Q, q.length = d := by
              unfold Curve.unweighted
              exact zipWith_vscale_dims (fun w => 1 / w) ws' Q d dQ
            have lr1 : (ratRow ws' row').length = (Curve.unweighted ws' Q).length := by
              simp [ratRow, lws', lrow', lP']
            have lr2 : (ratRow ws row).length = pts.length := by simp [ratRow, hwl, lrow, hlen]
            obtain ⟨l1, c1⟩ := lincomb_spec _ _ d lr1 (by omega) dP'
            obtain ⟨l2, c2⟩ := lincomb_spec _ _ d lr2 (by omega) hdim
            apply vec_ext_getD _ _ (by rw [l1, l2])
            intro j
            rw [c1 j, c2 j]
            have lc1 : (coordCol (Curve.unweighted ws' Q) j).length = kf.npts := by simp [coordCol, lP']
            have lc2 : (coordCol pts j).length = c.kv.npts := by simp [coordCol, hlen]
            rw [dot_ratRow ws' row' _ kf.npts lws' lrow' lc1, dot_ratRow ws row _ c.kv.npts hwl lrow lc2]
            rw [dot_comm ws' row', hden', dot_comm ws row]
            congr 1
            -- numerators: Σ row'_r (w'_r · (Q_r[j] / w'_r)) = Σ row'_r Q_r[j] = dot row' (M g) = dot row g
            have hnum' : ∑ i ∈ range kf.npts, row'.getD i 0 * (ws'.getD i 0 * (coordCol (Curve.unweighted ws' Q) j).getD i 0)
                = dot row' (coordCol Q j) := by
              rw [dot_eq_sum row' (coordCol Q j) kf.npts lrow' (by simp [coordCol, lQ])]
              apply sum_congr rfl
              intro i hi
              simp only [mem_range] at hi
              unfold Curve.unweighted
              rw [coordCol_zipWith_vscale (fun w => 1 / w) ws' Q j,
                getD_zipWith _ ws' (coordCol Q j) kf.npts lws' (by simp [coordCol, lQ]) i hi]
              have hne : ws'.getD i 0 ≠ 0 := by
                intro e
                apply hnz
                simp only [List.any_eq_true, beq_iff_eq]
                have hil : i < ws'.length := by omega
                refine ⟨ws'[i], List.getElem_mem hil, ?_⟩
                simpa [List.getD_eq_getElem?_getD, hil] using e
              field_simp
            have hnum : ∑ i ∈ range c.kv.npts, row.getD i 0 * (ws.getD i 0 * (coordCol pts j).getD i 0)
                = dot row (coordCol (Curve.weighted ws pts) j) := by
              rw [dot_eq_sum row _ c.kv.npts lrow (by simp [coordCol, lwp])]
              apply sum_congr rfl
              intro i hi
              simp only [mem_range] at hi
              unfold Curve.weighted
              rw [coordCol_zipWith_vscale (fun w => w) ws pts j, getD_zipWith _ ws (coordCol pts j) c.kv.npts hwl lc2 i hi]
            rw [hnum', hnum, hQ, coordCol_matPts m _ d _ _ hrep.shaped lwp hn0 dwp j]
            exact hrep.repro _ (by simp [coordCol, lwp]) u hu

end NV
