/-
Props/C13ReflAny.lean — property C13, reflexivity for *every* curve with control points, rational ones included:
whenever `A == A` returns an answer, the answer is True.  (For rational curves both sides of the cross-multiplied
comparison `num_A · den_A == num_A · den_A` are computed by the same deterministic steps, and a list of control points
compared with itself passes.)  `C13_eq_refl` adds, for polynomial curves on well-formed vectors, that an answer *is*
returned.
-/
import NurbsVerif.Props.C13Refl

namespace NV

theorem eqPoly_self (l : Curve) (r : Bool) (h : l.eqPoly l = .ok r) : r = true := by
  unfold Curve.eqPoly at h
  simp only [bind, Except.bind, pure, Except.pure] at h
  cases hc : l.kv.union l.kv with
  | error e => rw [hc] at h; cases h
  | ok c =>
    rw [hc] at h
    simp only [] at h
    cases hu : l.update c (some tol9) none with
    | error e => rw [hu] at h; cases h
    | ok a' =>
      rw [hu] at h
      simp only [] at h
      cases hp : a'.P with
      | none => rw [hp] at h; cases h
      | some pa =>
        rw [hp] at h
        simp only [Except.ok.injEq] at h
        rw [← h]
        exact compare_self pa

/-- **C13 (`==` is reflexive, every curve).**  If `A == A` returns an answer it is True: polynomial or rational. -/
theorem C13_eq_refl_any (a : Curve) (pa : List Vec) (hP : a.P = some pa) (r : Bool) (h : a.eq a = .ok r) : r = true := by
  unfold Curve.eq at h
  simp only [bne_self_eq_false, Bool.false_eq_true, if_false, bind, Except.bind, pure, Except.pure] at h
  rw [hP] at h
  simp only [] at h
  cases hW : a.W with
  | none =>
    rw [hW] at h
    exact eqPoly_self a r h
  | some ws =>
    rw [hW] at h
    simp only [] at h
    cases hf : a.fraction with
    | error e => rw [hf] at h; cases h
    | ok nd =>
      obtain ⟨na, da⟩ := nd
      rw [hf] at h
      simp only [] at h
      cases hm : na.mulOpd da vmulBroadcast with
      | error e => rw [hm] at h; cases h
      | ok l =>
        rw [hm] at h
        exact eqPoly_self l r h

/-- the polynomial comparison is symmetric (separated knot values) -/
theorem eqPoly_symm (x y : Curve) (r : Bool) (hsep : Separated (x.kv.v ++ y.kv.v)) (h : x.eqPoly y = .ok r) :
    y.eqPoly x = .ok r := by
  have hsep' : Separated (y.kv.v ++ x.kv.v) := by
    apply separated_of_subset _ _ hsep
    intro z hz; rw [List.mem_append] at hz ⊢; exact hz.symm
  unfold Curve.eqPoly at h ⊢
  simp only [bind, Except.bind, pure, Except.pure] at h ⊢
  rw [C17_union_comm y.kv x.kv hsep']
  cases hc : x.kv.union y.kv with
  | error e => rw [hc] at h; cases h
  | ok c =>
    rw [hc] at h
    simp only [] at h ⊢
    cases hx : x.update c (some tol9) none with
    | error e => rw [hx] at h; cases h
    | ok x' =>
      rw [hx] at h
      simp only [] at h
      cases hy : y.update c (some tol9) none with
      | error e => rw [hy] at h; cases h
      | ok y' =>
        rw [hy] at h
        simp only [] at h ⊢
        cases hPx : x'.P with
        | none =>
          rw [hPx] at h
          cases hPy : y'.P with
          | none => rw [hPy] at h; cases h
          | some qy => rw [hPy] at h; cases h
        | some qx =>
          rw [hPx] at h
          cases hPy : y'.P with
          | none => rw [hPy] at h; cases h
          | some qy =>
            rw [hPy] at h
            simp only [Except.ok.injEq] at h ⊢
            rw [← h, compare_symm qy qx]

/-- **C13 (`==` is symmetric, rational operands).**  Whenever `A == B` returns an answer for curves of which at least one
is rational, `B == A` returns the same answer (the cross-multiplied products are the same two curves in the other order;
their knot values separated). -/
theorem C13_eq_symm_rational (a b : Curve) (pa pb : List Vec) (r : Bool) (hPa : a.P = some pa) (hPb : b.P = some pb)
    (hW : ¬ (a.W = none ∧ b.W = none))
    (hsepLR : ∀ na da nb db l rr, a.fraction = .ok (na, da) → b.fraction = .ok (nb, db) →
        na.mulOpd db vmulBroadcast = .ok l → nb.mulOpd da vmulBroadcast = .ok rr → Separated (l.kv.v ++ rr.kv.v))
    (h : a.eq b = .ok r) : b.eq a = .ok r := by
  unfold Curve.eq at h ⊢
  simp only [bind, Except.bind, pure, Except.pure] at h ⊢
  rw [bne_comm (a := nth b.kv.v 0), bne_comm (a := b.kv.v.getLastD 0)]
  split at h
  · simp only [Except.ok.injEq] at h; subst h; rename_i h1; rw [if_pos h1]
  · rename_i h1
    rw [if_neg h1]
    split at h
    · simp only [Except.ok.injEq] at h; subst h; rename_i h2; rw [if_pos h2]
    · rename_i h2
      rw [if_neg h2]
      rw [hPa, hPb] at h
      rw [hPb, hPa]
      simp only [] at h ⊢
      rcases hWa : a.W with _ | wa <;> rcases hWb : b.W with _ | wb
      · exact absurd ⟨hWa, hWb⟩ hW
      all_goals (
        rw [hWa, hWb] at h
        simp only [] at h ⊢
        cases hfa : a.fraction with
        | error e => rw [hfa] at h; cases h
        | ok nd =>
          rw [hfa] at h
          simp only [] at h
          cases hfb : b.fraction with
          | error e => rw [hfb] at h; cases h
          | ok nd2 =>
            rw [hfb] at h
            simp only [] at h ⊢
            cases hl : nd.1.mulOpd nd2.2 vmulBroadcast with
            | error e => rw [hl] at h; cases h
            | ok l =>
              rw [hl] at h
              simp only [] at h
              cases hr : nd2.1.mulOpd nd.2 vmulBroadcast with
              | error e => rw [hr] at h; cases h
              | ok rr =>
                rw [hr] at h
                simp only [] at h ⊢
                exact eqPoly_symm l rr r (hsepLR nd.1 nd.2 nd2.1 nd2.2 l rr (by rw [hfa]) (by rw [hfb]) hl hr) h)

end NV
