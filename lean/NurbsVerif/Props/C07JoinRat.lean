/-
Props/C07JoinRat.lean — property C07, join of two *rational* curves of equal degree (positive weights): `A | B` is the
junction-cleaning of the concatenated curve (knots, control points and weights of A followed by those of B), and that
concatenated curve restricts to A on A's half-open interval and to B on B's closed interval.

The value of a rational curve is determined by the linear functional `g ↦ dot row g` applied to the weights and to the
weighted coordinates (`curveDef_rational_functional`); on the interval of an operand the functional of the concatenated
curve is the functional of the operand on its window (`window_eval`), for numerator and denominator alike.
-/
import NurbsVerif.Props.C07Join
import NurbsVerif.Props.C04Rat

namespace NV
open Finset

/-- coordinates of a rational curve value: `L(w ⊙ P_j) / L(w)` with `L g = dot row g` -/
theorem curveDef_rational_functional (U : List Rat) (umax : Rat) (n p : Nat) (pts : List Vec) (ws : List Rat) (d : Nat) (u : Rat)
    (hn0 : 0 < n) (hlen : pts.length = n) (hwl : ws.length = n) (hdim : ∀ q ∈ pts, q.length = d) :
    (curveDef U umax n p pts (some ws) u).length = d
      ∧ ∀ j, (curveDef U umax n p pts (some ws) u).getD j 0
          = dot (cdbRow U umax n p u) (List.zipWith (· * ·) ws (coordCol pts j)) / dot (cdbRow U umax n p u) ws := by
  unfold curveDef
  simp only []
  set row := cdbRow U umax n p u with hrow
  have lrow : row.length = n := by simp [hrow, cdbRow]
  have lr : (ratRow ws row).length = pts.length := by simp [ratRow, hwl, lrow, hlen]
  obtain ⟨l1, c1⟩ := lincomb_spec _ _ d lr (by omega) hdim
  refine ⟨l1, ?_⟩
  intro j
  have lc : (coordCol pts j).length = n := by simp [coordCol, hlen]
  rw [c1 j, dot_ratRow ws row _ n hwl lrow lc, dot_comm ws row]
  congr 1
  rw [dot_eq_sum row _ n lrow (by simp [hwl, lc])]
  apply sum_congr rfl
  intro i hi
  simp only [mem_range] at hi
  rw [getD_zipWith _ ws (coordCol pts j) n hwl lc i hi]

/-- two rational curve values agree when their functionals agree on the weights and on every weighted coordinate -/
theorem curveDef_rational_of_functional (U1 : List Rat) (umax1 : Rat) (n1 p1 : Nat) (pts1 : List Vec) (ws1 : List Rat)
    (U2 : List Rat) (umax2 : Rat) (n2 p2 : Nat) (pts2 : List Vec) (ws2 : List Rat) (d : Nat) (u : Rat)
    (h1 : 0 < n1) (hl1 : pts1.length = n1) (hw1 : ws1.length = n1) (hd1 : ∀ q ∈ pts1, q.length = d)
    (h2 : 0 < n2) (hl2 : pts2.length = n2) (hw2 : ws2.length = n2) (hd2 : ∀ q ∈ pts2, q.length = d)
    (hden : dot (cdbRow U1 umax1 n1 p1 u) ws1 = dot (cdbRow U2 umax2 n2 p2 u) ws2)
    (hnum : ∀ j, dot (cdbRow U1 umax1 n1 p1 u) (List.zipWith (· * ·) ws1 (coordCol pts1 j))
        = dot (cdbRow U2 umax2 n2 p2 u) (List.zipWith (· * ·) ws2 (coordCol pts2 j))) :
    curveDef U1 umax1 n1 p1 pts1 (some ws1) u = curveDef U2 umax2 n2 p2 pts2 (some ws2) u := by
  obtain ⟨l1, c1⟩ := curveDef_rational_functional U1 umax1 n1 p1 pts1 ws1 d u h1 hl1 hw1 hd1
  obtain ⟨l2, c2⟩ := curveDef_rational_functional U2 umax2 n2 p2 pts2 ws2 d u h2 hl2 hw2 hd2
  apply vec_ext_getD _ _ (by rw [l1, l2])
  intro j
  rw [c1 j, c2 j, hden, hnum j]

theorem zipWith_mul_append (wa wb ca cb : List Rat) (h : wa.length = ca.length) :
    List.zipWith (· * ·) (wa ++ wb) (ca ++ cb) = List.zipWith (· * ·) wa ca ++ List.zipWith (· * ·) wb cb :=
  List.zipWith_append h


/-- **C07 (join, equal degrees, rational operands with positive weights): the concatenated curve restricts to both
operands** (A on its half-open interval, B on its closed interval), and `A | B` is the junction-cleaning of that curve. -/
theorem C07_join_concat_rational (a b J : Curve) (pa pb : List Vec) (wa wb : List Rat) (d : Nat)
    (hPa : a.P = some pa) (hPb : b.P = some pb) (hWa : a.W = some wa) (hWb : b.W = some wb)
    (hla : pa.length = a.kv.npts) (hlb : pb.length = b.kv.npts)
    (hlwa : wa.length = a.kv.npts) (hlwb : wb.length = b.kv.npts)
    (hposa : ∀ w ∈ wa, 0 < w) (hposb : ∀ w ∈ wb, 0 < w)
    (hda : ∀ q ∈ pa, q.length = d) (hdb : ∀ q ∈ pb, q.length = d)
    (hwa : WF a.kv.v a.kv.deg) (hwb : WF b.kv.v b.kv.deg) (hdeg : a.kv.deg = b.kv.deg)
    (hsep : Separated (a.kv.v ++ b.kv.v)) (h : a.join b = .ok J) :
    ∃ cc : Curve, J = Curve.knotClean cc (some [nth b.kv.v 0]) tol9
      ∧ cc.kv.v = a.kv.v.take a.kv.npts ++ b.kv.v ∧ cc.P = some (pa ++ pb) ∧ cc.W = some (wa ++ wb)
      ∧ (∀ u, a.kv.umin ≤ u → u < a.kv.umax → cc.eval u = a.eval u)
      ∧ (∀ u, b.kv.umin ≤ u → u ≤ b.kv.umax → cc.eval u = b.eval u) := by
  unfold Curve.join at h
  simp only [bind, Except.bind, pure, Except.pure] at h
  split at h
  · cases h
  · rename_i hjn
    simp only [bne_iff_ne, ne_eq, Decidable.not_not] at hjn
    have hr : max a.kv.deg b.kv.deg = a.kv.deg := by rw [hdeg]; exact Nat.max_self _
    have hsa : a.setDegree (max a.kv.deg b.kv.deg) = .ok a := by unfold Curve.setDegree; rw [hr]; simp
    have hsb : b.setDegree (max a.kv.deg b.kv.deg) = .ok b := by unfold Curve.setDegree; rw [hr, hdeg]; simp
    rw [hsa, hsb] at h
    simp only [] at h
    split at h
    · cases h
    · rename_i newk hnk
      rw [hPa, hPb, hWa, hWb] at h
      simp only [Option.getD_some] at h
      split at h
      · cases h
      · rename_i cc hcc
        simp only [Except.ok.injEq] at h
        have hnk' : KV.mk? (a.kv.v.take a.kv.npts ++ b.kv.v) = .ok newk := hnk
        obtain ⟨hkval, hkv, hkd⟩ := mk?_ok _ newk hnk'
        have hcce := (mk?_spec _ _ _ _ hcc).1
        have hwb' : WF b.kv.v a.kv.deg := by rw [hdeg]; exact hwb
        obtain ⟨fA, fB, fL, fC⟩ := concat_facts a.kv.v b.kv.v a.kv.deg hwa hwb' hjn
        have hn0 : a.kv.v.length - a.kv.deg - 1 = a.kv.npts := rfl
        rw [hn0] at fA fB fL fC
        rw [← hkv] at fA fB fL fC
        have hkdeg : newk.deg = a.kv.deg := by rw [hkd, ← hkv, fC]; omega
        have hwfN : WF newk.v newk.deg := by
          have := isValid_WF_exact newk.v (by rw [hkv]; exact hkval)
          rw [fC] at this; rw [hkdeg]; exact this
        have hsepN : Separated newk.v := by
          apply separated_of_subset _ _ hsep
          intro y hy
          rw [hkv, List.mem_append] at hy
          rw [List.mem_append]
          rcases hy with hy | hy
          · exact Or.inl (List.mem_of_mem_take hy)
          · exact Or.inr hy
        have hsepA : Separated a.kv.v := separated_of_subset _ _ hsep (fun y hy => by simp [hy])
        have hsepB : Separated b.kv.v := separated_of_subset _ _ hsep (fun y hy => by simp [hy])
        have gN : GoodKV newk := goodKV_of_WF newk.v newk.deg hwfN hsepN
        have gA : GoodKV a.kv := goodKV_of_WF a.kv.v a.kv.deg hwa hsepA
        have gB : GoodKV b.kv := goodKV_of_WF b.kv.v b.kv.deg hwb hsepB
        have hlenA := gA.ord.len
        have hlenB := gB.ord.len
        have hlenN := gN.ord.len
        have hnptsN : newk.npts = a.kv.npts + b.kv.npts := by
          unfold KV.npts at hlenN hlenA hlenB ⊢
          rw [fL, hkdeg]; rw [← hdeg] at hlenB; omega
        have hnpA : a.kv.deg < a.kv.npts := gA.deg_lt
        have hnpB : a.kv.deg < b.kv.npts := by rw [hdeg]; exact gB.deg_lt
        have huminN : newk.umin = a.kv.umin := by
          unfold KV.umin; rw [hkdeg, fA a.kv.deg (by omega)]; rfl
        have humaxN : newk.umax = b.kv.umax := by
          unfold KV.umax; rw [hnptsN, fB b.kv.npts (by omega)]; congr 1; omega
        have hjoin : a.kv.umax = b.kv.umin := by
          have e1 : a.kv.umax = a.kv.v.getLastD 0 := by
            have := umax_eq_last a.kv.v a.kv.deg hwa; unfold KV.umax KV.npts; exact this
          have e2 : b.kv.umin = nth b.kv.v 0 := umin_eq_first b.kv.v b.kv.deg hwb
          rw [e1, e2, hjn]
        have hbmono : b.kv.umin ≤ b.kv.umax := gB.ord.mono _ _ (by have := gB.deg_lt; omega) (by omega)
        have hamono : a.kv.umin ≤ a.kv.umax := gA.ord.mono _ _ (by omega) (by omega)
        have hccP : cc.P = some (pa ++ pb) := by rw [hcce]
        have hccW : cc.W = some (wa ++ wb) := by rw [hcce]
        have hcck : cc.kv = newk := by rw [hcce]
        have hlenP : (pa ++ pb).length = newk.npts := by rw [hnptsN, List.length_append, hla, hlb]
        have hlenW : (wa ++ wb).length = newk.npts := by rw [hnptsN, List.length_append, hlwa, hlwb]
        have hposW : ∀ w ∈ wa ++ wb, 0 < w := by
          intro w hw; rw [List.mem_append] at hw
          rcases hw with hw | hw
          · exact hposa w hw
          · exact hposb w hw
        have hdimP : ∀ q ∈ pa ++ pb, q.length = d := by
          intro q hq; rw [List.mem_append] at hq
          rcases hq with hq | hq
          · exact hda q hq
          · exact hdb q hq
        have hnN0 : 0 < newk.npts := by omega
        refine ⟨cc, h.symm, by rw [hcck, hkv], hccP, hccW, ?_, ?_⟩
        · -- A's interval
          intro u hu1 hu2
          have huN : cc.kv.umin ≤ u ∧ u ≤ cc.kv.umax := by
            rw [hcck, huminN, humaxN]
            exact ⟨hu1, le_trans (le_of_lt hu2) (by rw [hjoin]; exact hbmono)⟩
          rw [C01_eval_eq_def_positive cc (pa ++ pb) u hccP (by rw [hcck]; exact hwfN) (by rw [hcck]; exact hsepN) huN
              (by intro ws hws; rw [hccW] at hws; cases hws; rw [hcck]; exact ⟨hlenW, hposW⟩),
            C01_eval_eq_def_positive a pa u hPa hwa hsepA ⟨hu1, le_of_lt hu2⟩
              (by intro ws hws; rw [hWa] at hws; cases hws; exact ⟨hlwa, hposa⟩)]
          congr 1
          rw [hccW, hWa, hcck]
          obtain ⟨sz', hs1, hs2, hin⟩ := exists_span a.kv gA u ⟨hu1, le_of_lt hu2⟩
          have hin' : nth a.kv.v sz' ≤ u ∧ u < nth a.kv.v (sz' + 1) := by
            rcases hin with hh | ⟨hh, _⟩
            · exact hh
            · exfalso; rw [hh] at hu2; exact lt_irrefl _ hu2
          have hwin : ∀ Q : List Rat, Q.length = newk.npts →
              dot (cdbRow a.kv.v a.kv.umax a.kv.npts a.kv.deg u) ((Q.drop 0).take a.kv.npts)
                = dot (cdbRow newk.v newk.umax newk.npts a.kv.deg u) Q := fun Q hQ =>
            window_eval newk.v a.kv.v newk.umax a.kv.umax newk.npts a.kv.npts a.kv.deg 0
              Q u sz' gN.ord.mono gN.ord.le_umax (by rw [← hkdeg]; exact hlenN)
              gA.ord.mono gA.ord.le_umax hlenA fA (by rw [fL]; omega) hQ hs1 hs2 hin'
          rw [hkdeg]
          apply curveDef_rational_of_functional _ _ _ _ _ _ _ _ _ _ _ _ d u hnN0 hlenP hlenW hdimP (by omega) hla hlwa hda
          · rw [← hwin (wa ++ wb) hlenW, List.drop_zero, List.take_left' hlwa]
          · intro j
            have hca : (coordCol pa j).length = a.kv.npts := by simp [coordCol, hla]
            rw [coordCol_append, zipWith_mul_append wa wb _ _ (by rw [hlwa, hca])]
            have hQl : (List.zipWith (· * ·) wa (coordCol pa j) ++ List.zipWith (· * ·) wb (coordCol pb j)).length = newk.npts := by
              simp [coordCol, hla, hlb, hlwa, hlwb, hnptsN]
            rw [← hwin _ hQl, List.drop_zero, List.take_left' (by simp [hlwa, hca])]
        · -- B's interval (closed)
          intro u hu1 hu2
          have huN : cc.kv.umin ≤ u ∧ u ≤ cc.kv.umax := by
            rw [hcck, huminN, humaxN]
            exact ⟨le_trans hamono (by rw [hjoin]; exact hu1), hu2⟩
          rw [C01_eval_eq_def_positive cc (pa ++ pb) u hccP (by rw [hcck]; exact hwfN) (by rw [hcck]; exact hsepN) huN
              (by intro ws hws; rw [hccW] at hws; cases hws; rw [hcck]; exact ⟨hlenW, hposW⟩),
            C01_eval_eq_def_positive b pb u hPb hwb hsepB ⟨hu1, hu2⟩
              (by intro ws hws; rw [hWb] at hws; cases hws; exact ⟨hlwb, hposb⟩)]
          congr 1
          rw [hccW, hWb, hcck]
          obtain ⟨sz', hs1, hs2, hin⟩ := exists_span b.kv gB u ⟨hu1, hu2⟩
          rw [← hdeg] at hs1 hlenB
          have hwin : ∀ Q : List Rat, Q.length = newk.npts →
              dot (cdbRow b.kv.v b.kv.umax b.kv.npts a.kv.deg u) ((Q.drop a.kv.npts).take b.kv.npts)
                = dot (cdbRow newk.v newk.umax newk.npts a.kv.deg u) Q := fun Q hQ =>
            window_eval_closed newk.v b.kv.v newk.umax b.kv.umax newk.npts b.kv.npts a.kv.deg a.kv.npts
              Q u sz' gN.ord.mono gN.ord.le_umax (by rw [← hkdeg]; exact hlenN)
              gB.ord.mono gB.ord.le_umax hlenB fB (le_of_eq fL.symm) hQ hs1 hs2 hin (fun _ => humaxN)
          rw [hkdeg, ← hdeg]
          apply curveDef_rational_of_functional _ _ _ _ _ _ _ _ _ _ _ _ d u hnN0 hlenP hlenW hdimP (by omega) hlb hlwb hdb
          · rw [← hwin (wa ++ wb) hlenW, List.drop_left' hlwa, List.take_of_length_le (by rw [hlwb])]
          · intro j
            have hca : (coordCol pa j).length = a.kv.npts := by simp [coordCol, hla]
            have hcb : (coordCol pb j).length = b.kv.npts := by simp [coordCol, hlb]
            rw [coordCol_append, zipWith_mul_append wa wb _ _ (by rw [hlwa, hca])]
            have hQl : (List.zipWith (· * ·) wa (coordCol pa j) ++ List.zipWith (· * ·) wb (coordCol pb j)).length = newk.npts := by
              simp [coordCol, hla, hlb, hlwa, hlwb, hnptsN]
            rw [← hwin _ hQl, List.drop_left' (by simp [hlwa, hca]), List.take_of_length_le (by simp [hlwb, hcb])]

/-! non-vacuity: a concrete pair of rational curves that meets every hypothesis and is joined by the model -/
example : (Curve.join ⟨⟨[0, 0, 1, 1], 1⟩, some [[1], [2]], some [1, 2]⟩ ⟨⟨[1, 1, 2, 2], 1⟩, some [[2], [5]], some [3, 1]⟩).toBool = true := by
  decide +kernel

end NV
