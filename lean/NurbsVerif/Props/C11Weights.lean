/-
Props/C11Weights.lean — property C11, receivers with weights: `fit_curve` of a polynomial source sets the control points
only; the receiving curve keeps its knot vector and its weights (its space S), and has one control point per basis
function.
-/
import NurbsVerif.Props.C11Interp

namespace NV

theorem C11_fit_keeps_space (c other c' : Curve) (err : Rat) (nodes : Option (List Rat)) (wa : List Rat)
    (hWc : c.W = some wa) (hWo : other.W = none) (h : c.fitCurve other nodes = .ok (c', err)) :
    c'.kv = c.kv ∧ c'.W = some wa ∧ ∃ q, c'.P = some q ∧ q.length = c.kv.npts := by
  unfold Curve.fitCurve at h
  rw [hWc, hWo] at h
  cases hP : other.P with
  | none => rw [hP] at h; simp only [] at h; cases h
  | some pts =>
    rw [hP] at h
    simp only [bind, Except.bind, pure, Except.pure] at h
    split at h
    · cases h
    · rename_i TE hTE
      obtain ⟨T, E⟩ := TE
      simp only [] at h
      split at h
      · cases h
      · rename_i cc hcc
        simp only [Except.ok.injEq, Prod.mk.injEq] at h
        obtain ⟨hc', _⟩ := h
        subst hc'
        obtain ⟨hx, hcons⟩ := mk?_spec _ _ _ _ hcc
        rw [hx]
        refine ⟨rfl, rfl, matPts T pts, rfl, ?_⟩
        unfold Curve.mk? at hcc
        by_cases hl : ((matPts T pts).length != c.kv.npts) = true
        · simp [hl] at hcc
        · simpa using hl

end NV
