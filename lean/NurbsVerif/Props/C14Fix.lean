/-
Props/C14Fix.lean — property C14, the fixpoint part of `knot_clean` for one knot: the loop
`while True: knot_remove((knot,))` ends because a removal was *refused* (never because it ran out of iterations:
the model's fuel, the length of the knot vector plus one, cannot be used up), and what it returns is a fixpoint of the
loop — cleaning the same knot again changes nothing, for every curve, knot and tolerance.
-/
import NurbsVerif.Props.C05Round
import NurbsVerif.Props.C05

namespace NV

theorem removeAll_single_length (x : Rat) (v l : List Rat) (h : removeAll [x] v = some l) : v.length = l.length + 1 := by
  have := (removeAll_perm [x] v l h).1.length_eq
  simpa using this

/-- a refused removal stops the loop at once -/
theorem removeWhilePossible_of_refused (f : Nat) (c : Curve) (x : Rat) (tol : Option Rat) (e : Err)
    (h : c.knotRemove [x] tol = .error e) : Curve.removeWhilePossible f c x tol = c := by
  cases f with
  | zero => rfl
  | succ f => simp only [Curve.removeWhilePossible, h]

/-- with more fuel than knots the loop ends in a refused removal -/
theorem removeWhilePossible_ends_refused : ∀ (f : Nat) (c : Curve) (x : Rat) (tol : Option Rat),
    c.kv.v.length < f → ∃ e, (Curve.removeWhilePossible f c x tol).knotRemove [x] tol = .error e := by
  intro f
  induction f with
  | zero => intro c x tol h; omega
  | succ f ih =>
    intro c x tol h
    simp only [Curve.removeWhilePossible]
    split
    · rename_i c' hc'
      have hl := removeAll_single_length x c.kv.v c'.kv.v (C05_knots c c' [x] tol hc')
      exact ih c' x tol (by omega)
    · rename_i e he
      exact ⟨e, he⟩

/-- **C14 (fixpoint of the single-knot loop).** -/
theorem C14_knot_loop_fixpoint (c : Curve) (x : Rat) (tol : Option Rat) :
    let c' := Curve.removeWhilePossible (c.kv.v.length + 1) c x tol
    Curve.removeWhilePossible (c'.kv.v.length + 1) c' x tol = c' := by
  intro c'
  obtain ⟨e, he⟩ := removeWhilePossible_ends_refused (c.kv.v.length + 1) c x tol (by omega)
  exact removeWhilePossible_of_refused _ c' x tol e he

/-- `knot_clean([x])` twice = once, when `x` is an interior value (for a single requested knot the fold is one loop) -/
theorem C14_knotClean_single_idempotent (c : Curve) (x : Rat) (tol : Rat)
    (hx : x ≠ c.kv.umin ∧ x ≠ c.kv.umax)
    (hlim : (Curve.knotClean c (some [x]) tol).kv.umin = c.kv.umin ∧ (Curve.knotClean c (some [x]) tol).kv.umax = c.kv.umax) :
    Curve.knotClean (Curve.knotClean c (some [x]) tol) (some [x]) tol = Curve.knotClean c (some [x]) tol := by
  have hfilter : ∀ (k : Curve), k.kv.umin = c.kv.umin → k.kv.umax = c.kv.umax →
      Curve.knotClean k (some [x]) tol = Curve.removeWhilePossible (k.kv.v.length + 1) k x (some tol) := by
    intro k h1 h2
    unfold Curve.knotClean
    have e1 : (x == k.kv.umin) = false := by rw [h1]; simpa using hx.1
    have e2 : (x == k.kv.umax) = false := by rw [h2]; simpa using hx.2
    simp [isort, dedup, insSorted, e1, e2]
  rw [hfilter c rfl rfl] at hlim ⊢
  rw [hfilter _ hlim.1 hlim.2]
  exact C14_knot_loop_fixpoint c x (some tol)

end NV
