/-
Props/C05Rat.lean — property C05 for rational curves: removing the knots that were just inserted gives back the curve
(control points and weights), for every rational model curve with non-zero weights.
-/
import NurbsVerif.Props.C05Round
import NurbsVerif.Props.C04Rat

namespace NV
open Finset

theorem vscale_vscale (a b : Rat) (p : Vec) : vscale a (vscale b p) = vscale (a * b) p := by
  simp only [vscale, List.map_map]
  apply List.map_congr_left
  intro x _
  simp only [Function.comp]; ring

theorem vscale_one (p : Vec) : vscale 1 p = p := by simp [vscale]

/-- dividing by the weights undoes multiplying by them -/
theorem unweighted_weighted (ws : List Rat) (pts : List Vec) (hlen : ws.length = pts.length) (hnz : ∀ w ∈ ws, w ≠ 0) :
    Curve.unweighted ws (Curve.weighted ws pts) = pts := by
  unfold Curve.unweighted Curve.weighted
  induction ws generalizing pts with
  | nil => cases pts with
    | nil => rfl
    | cons p ps => simp at hlen
  | cons w ws ih =>
    cases pts with
    | nil => simp at hlen
    | cons p ps =>
      simp only [List.length_cons, Nat.add_right_cancel_iff] at hlen
      simp only [List.zipWith_cons_cons]
      rw [ih ps hlen (fun x hx => hnz x (by simp [hx])), vscale_vscale]
      have : 1 / w * w = 1 := by field_simp [hnz w (by simp)]
      rw [this, vscale_one]

theorem weighted_unweighted (ws : List Rat) (X : List Vec) (hlen : ws.length = X.length) (hnz : ∀ w ∈ ws, w ≠ 0) :
    Curve.weighted ws (Curve.unweighted ws X) = X := by
  unfold Curve.unweighted Curve.weighted
  induction ws generalizing X with
  | nil => cases X with
    | nil => rfl
    | cons p ps => simp at hlen
  | cons w ws ih =>
    cases X with
    | nil => simp at hlen
    | cons p ps =>
      simp only [List.length_cons, Nat.add_right_cancel_iff] at hlen
      simp only [List.zipWith_cons_cons]
      rw [ih ps hlen (fun x hx => hnz x (by simp [hx])), vscale_vscale]
      have : w * (1 / w) = 1 := by field_simp [hnz w (by simp)]
      rw [this, vscale_one]

theorem dot_replicate_zero (row : List Rat) (n : Nat) : dot row (List.replicate n 0) = 0 := by
  induction row generalizing n with
  | nil => cases n <;> simp [dot, List.replicate_succ]
  | cons x xs ih =>
    cases n with
    | zero => simp [dot]
    | succ m => simp [dot, List.replicate_succ, ih m]

/-- a matrix applied to one-dimensional points is the matrix–vector product -/
theorem matPts_singletons (A : Mat) (r n : Nat) (hA : Shaped A r n) (f : List Rat) (hf : f.length = n) (hn : 0 < n) :
    matPts A (f.map fun w => [w]) = (matVec A f).map fun w => [w] := by
  have hd : ∀ p ∈ f.map (fun w => [w]), p.length = 1 := by
    intro p hp; obtain ⟨w, _, rfl⟩ := List.mem_map.mp hp; rfl
  have hl : (f.map fun w => ([w] : Vec)).length = n := by simp [hf]
  have dims := matPts_dims A _ 1 r n hA hl hn hd
  apply List.ext_getElem (by simp [matPts, matVec])
  intro i h1 h2
  have hi : i < A.length := by simpa [matPts] using h1
  apply vec_ext_getD _ _ (by rw [dims _ (List.getElem_mem h1)]; simp)
  intro j
  have e := coordCol_matPts A _ 1 r n hA hl hn hd j
  have g1 : ((matPts A (f.map fun w => [w]))[i]).getD j 0 = (coordCol (matPts A (f.map fun w => [w])) j).getD i 0 := by
    simp [coordCol, List.getD_eq_getElem?_getD, h1]
  rw [g1, e]
  cases j with
  | zero =>
    have : coordCol (f.map fun w => ([w] : Vec)) 0 = f := by
      unfold coordCol
      rw [List.map_map]
      conv_rhs => rw [← List.map_id f]
      apply List.map_congr_left
      intro w _; simp
    rw [this]
    simp [List.getD_eq_getElem?_getD, matVec, hi]
  | succ j =>
    have : coordCol (f.map fun w => ([w] : Vec)) (j + 1) = List.replicate f.length 0 := by
      unfold coordCol
      rw [List.map_map]
      apply List.ext_getElem (by simp)
      intro k hk1 hk2
      simp
    rw [this]
    simp [List.getD_eq_getElem?_getD, matVec, hi, dot_replicate_zero]

/-- what an accepted insertion on a rational curve produces -/
theorem knotInsert_unpack_rat (c c1 : Curve) (nodes : List Rat) (pts : List Vec) (ws : List Rat)
    (hP : c.P = some pts) (hW : c.W = some ws) (hwf : WF c.kv.v c.kv.deg) (hsep : Separated (c.kv.v ++ nodes))
    (h : c.knotInsert nodes = .ok c1) :
    ∃ (k : KV) (M : Mat), c1 = ⟨k, some (Curve.unweighted (matVec M ws) (matPts M (Curve.weighted ws pts))), some (matVec M ws)⟩
      ∧ Repro c.kv k M ∧ WF k.v k.deg ∧ k.v = isort (c.kv.v ++ nodes) ∧ (∀ w ∈ matVec M ws, w ≠ 0) := by
  unfold Curve.knotInsert at h
  simp only [bind, Except.bind] at h
  split at h
  · cases h
  · rename_i newk hins
    split at h
    · cases h
    · rename_i hdeg
      simp only [bne_iff_ne, ne_eq, Decidable.not_not] at hdeg
      split at h
      · cases h
      · rename_i m hm
        obtain ⟨kf, hrep, hwff, hkfv⟩ := knotInsertMat_reached c.kv nodes m hwf hsep hm
        rw [accepted_nodes_interior c.kv newk nodes hwf hins hdeg] at hkfv
        have hnewv : newk.v = isort (c.kv.v ++ nodes) := by
          unfold KV.insert at hins
          split at hins
          · cases hins
          · exact (mk?_ok _ _ hins).2.1
        have hkf : kf = newk := by
          cases kf; cases newk
          simp only at hkfv hnewv hdeg
          have := hrep.deg
          simp only at this
          simp [hkfv, hnewv, this, hdeg]
        subst hkf
        unfold Curve.apply at h
        rw [hP, hW] at h
        simp only [bind, Except.bind] at h
        split at h
        · cases h
        · split at h
          · cases h
          · rename_i hnz
            refine ⟨kf, m, (mk?_spec _ _ _ _ h).1, hrep, hwff, hkfv, ?_⟩
            intro w hw e
            apply hnz
            simp only [List.any_eq_true, beq_iff_eq]
            exact ⟨w, hw, e⟩

theorem weighted_dims (ws : List Rat) (pts : List Vec) (d : Nat) (hd : ∀ p ∈ pts, p.length = d) :
    ∀ q ∈ Curve.weighted ws pts, q.length = d := by
  unfold Curve.weighted
  exact zipWith_vscale_dims (fun w => w) ws pts d hd

theorem unweighted_dims (ws : List Rat) (pts : List Vec) (d : Nat) (hd : ∀ p ∈ pts, p.length = d) :
    ∀ q ∈ Curve.unweighted ws pts, q.length = d := by
  unfold Curve.unweighted
  exact zipWith_vscale_dims (fun w => 1 / w) ws pts d hd

/-- **C05 (removal undoes insertion), rational curves.** -/
theorem C05_insert_then_remove_rational (c c1 c2 : Curve) (nodes : List Rat) (pts : List Vec) (ws : List Rat) (d : Nat)
    (tol : Option Rat)
    (hP : c.P = some pts) (hW : c.W = some ws) (hlen : pts.length = c.kv.npts) (hwl : ws.length = c.kv.npts)
    (hdim : ∀ p ∈ pts, p.length = d) (hwnz : ∀ w ∈ ws, w ≠ 0)
    (hwf : WF c.kv.v c.kv.deg) (hsep : Separated (c.kv.v ++ nodes)) (hne : nodes ≠ [])
    (h1 : c.knotInsert nodes = .ok c1) (h2 : c1.knotRemove nodes tol = .ok c2) : c2 = c := by
  obtain ⟨k, M, hc1, hrep, hwk, hkv, hnz1⟩ := knotInsert_unpack_rat c c1 nodes pts ws hP hW hwf hsep h1
  subst hc1
  have hsepU : Separated c.kv.v := separated_of_subset _ _ hsep (fun y hy => by simp [hy])
  have hsepK : Separated k.v := by
    apply separated_of_subset _ _ hsep
    intro y hy; rw [hkv, mem_isort] at hy; exact hy
  have g0 : GoodKV c.kv := by
    have := goodKV_of_WF c.kv.v c.kv.deg hwf hsepU
    cases hk : c.kv; rw [hk] at this; exact this
  have g1 : GoodKV k := by
    have := goodKV_of_WF k.v k.deg hwk hsepK
    cases k; exact this
  have hc0 : orderedCheck c.kv = true := by
    have := orderedCheck_of_WF c.kv.v c.kv.deg hwf
    cases hk : c.kv; rw [hk] at this; exact this
  have hc1 : orderedCheck k = true := by
    have := orderedCheck_of_WF k.v k.deg hwk
    cases k; exact this
  have hn0 : 0 < c.kv.npts := by have := g0.deg_lt; omega
  have hn1 : 0 < k.npts := by have := g1.deg_lt; omega
  unfold Curve.knotRemove at h2
  simp only [bind, Except.bind] at h2
  split at h2
  · cases h2
  · rename_i newk hrem
    have hnewk : newk = c.kv := by
      unfold KV.remove at hrem
      split at hrem
      · cases hrem
      · rename_i l hl
        obtain ⟨p1, s1⟩ := removeAll_perm nodes k.v l hl
        have hsl : l.Pairwise (· ≤ ·) := (pairwise_of_sortedLE k.v hwk.sorted).sublist s1
        have hperm : l.Perm c.kv.v := by
          have e1 : (nodes ++ l).Perm (nodes ++ c.kv.v) := by
            refine p1.symm.trans ?_
            rw [hkv]
            exact (perm_isort _).trans List.perm_append_comm
          exact (List.perm_append_left_iff nodes).mp e1
        have hl' : l = c.kv.v := by
          apply List.Perm.eq_of_pairwise (le := (· ≤ ·))
          · intro a b _ _ h1 h2; exact le_antisymm h1 h2
          · exact hsl
          · exact pairwise_of_sortedLE c.kv.v hwf.sorted
          · exact hperm
        rw [hl', mk?_self c.kv hwf] at hrem
        simp only [Except.ok.injEq] at hrem
        exact hrem.symm
    subst hnewk
    unfold Curve.update at h2
    have hneq : (c.kv == k) = false := by
      have : c.kv ≠ k := by
        intro e
        have hl := congrArg (fun x => x.v.length) e
        simp only [hkv, length_isort, List.length_append] at hl
        have : 0 < nodes.length := List.length_pos_of_ne_nil hne
        omega
      simpa using this
    simp only [hneq, Bool.false_eq_true, if_false, bind, Except.bind, pure, Except.pure] at h2
    split at h2
    · cases h2
    · -- numerator
      simp only [Curve.updatePoly, Curve.fitSpline, bind, Except.bind, pure, Except.pure] at h2
      split at h2
      · cases h2
      · rename_i num hnum
        split at hnum
        · cases hnum
        · rename_i res hres
          split at hres
          · cases hres
          · rename_i TE hTE
            obtain ⟨T, E⟩ := TE
            simp only [Except.ok.injEq] at hres
            subst hres
            simp only [] at hnum
            split at hnum
            · cases hnum
            · simp only [Except.ok.injEq] at hnum
              subst hnum
              -- denominator
              split at h2
              · cases h2
              · rename_i den hden
                split at hden
                · cases hden
                · rename_i res2 hres2
                  split at hres2
                  · cases hres2
                  · rename_i TE2 hTE2
                    rw [hTE] at hTE2
                    simp only [Except.ok.injEq] at hTE2
                    subst hTE2
                    simp only [Except.ok.injEq] at hres2
                    subst hres2
                    simp only [] at hden
                    split at hden
                    · cases hden
                    · simp only [Except.ok.injEq] at hden
                      subst hden
                      split at h2
                      · cases h2
                      · have hc2 := (mk?_spec _ _ _ _ h2).1
                        have hfn : ∀ ns, (if c.kv.deg != 0 then some c.kv.knots else none) = some ns → ns ≠ [] := by
                          intro ns hns
                          split at hns
                          · simp only [Option.some.injEq] at hns; subst hns; exact knots_ne_nil c.kv g0
                          · cases hns
                        obtain ⟨sT, hTM⟩ := fit_left_inverse c.kv k M T E _ hfn hrep.toW g0 g1 hc0 hc1 hTE
                        -- shapes and dimensions
                        have lws1 : (matVec M ws).length = k.npts := by rw [matVec_length, hrep.shaped.1]
                        have lwp : (Curve.weighted ws pts).length = c.kv.npts := by simp [Curve.weighted, hwl, hlen]
                        have dwp := weighted_dims ws pts d hdim
                        have lQ : (matPts M (Curve.weighted ws pts)).length = k.npts := by simp [matPts, hrep.shaped.1]
                        have dQ := matPts_dims M _ d _ _ hrep.shaped lwp hn0 dwp
                        -- numerator: T (w1 · (Q / w1)) = T Q = T M (w P) = w P
                        have e1 : Curve.weighted (matVec M ws) (Curve.unweighted (matVec M ws) (matPts M (Curve.weighted ws pts)))
                            = matPts M (Curve.weighted ws pts) :=
                          weighted_unweighted _ _ (by rw [lws1, lQ]) hnz1
                        have e2 : matPts T (matPts M (Curve.weighted ws pts)) = Curve.weighted ws pts := by
                          rw [← matPts_matMul T M _ _ _ d sT hrep.shaped hn1 hn0 hn0 _ lwp dwp, hTM]
                          have := matPts_identity (Curve.weighted ws pts) d dwp (by omega)
                          rw [lwp] at this; exact this
                        -- denominator: T (M ws) = ws
                        have e3 : matPts T ((matVec M ws).map fun w => [w]) = ws.map fun w => [w] := by
                          rw [matPts_singletons T _ _ sT (matVec M ws) lws1 hn1,
                            ← matVec_matMul T M _ _ _ sT hrep.shaped hn1 ws hwl, hTM, matVec_identity _ ws hwl]
                        have e4 : (ws.map fun w => ([w] : Vec)).map (fun d => d.getD 0 0) = ws := by
                          rw [List.map_map]
                          conv_rhs => rw [← List.map_id ws]
                          apply List.map_congr_left
                          intro w _; simp
                        rw [hc2, e1, e2, e3, e4, unweighted_weighted ws pts (by rw [hwl, hlen]) hwnz]
                        cases c
                        simp only at hP hW
                        simp [hP, hW]

end NV
