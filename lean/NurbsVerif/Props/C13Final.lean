/-
Props/C13Final.lean — `matrix_transformation` onto a refinement of equal degree always succeeds, so reproducing matrices
onto the union vector exist; C13 soundness of `==` and the C08 sum theorem then need nothing but well-formed operands of
equal degree with separated knot values.
-/
import NurbsVerif.Props.C08Union
import NurbsVerif.Props.C04Accept

namespace NV
open Finset

theorem matrixTransformation_ok (a b : KV) (hwa : WF a.v a.deg) (hwb : WF b.v b.deg)
    (hsep : Separated (a.v ++ b.v)) (hdeg : a.deg = b.deg) (hlim : a.limits = b.limits) (href : Refines a b) :
    ∃ m, matrixTransformation a b = .ok m := by
  have hsepA : Separated a.v := separated_of_subset _ _ hsep (fun y hy => by simp [hy])
  have hsepB : Separated b.v := separated_of_subset _ _ hsep (fun y hy => by simp [hy])
  have gb : GoodKV b := by
    have := goodKV_of_WF b.v b.deg hwb hsepB
    cases b; exact this
  have hmultA : ∀ x ∈ b.v, a.multSingle x = cnt a.v x := by
    intro x hx
    apply mult_spec
    intro y hy
    by_cases e : y = x
    · exact Or.inl e
    · right
      exact le_trans tol9_le_tol6 (hsep x (by simp [hx]) y (by simp [hy]) (fun h => e h.symm))
  have hmultB : ∀ x ∈ b.v, b.multSingle x = cnt b.v x := by
    intro x hx
    apply mult_spec
    intro y hy
    by_cases e : y = x
    · exact Or.inl e
    · right
      exact le_trans tol9_le_tol6 (hsepB x hx y hy (fun h => e h.symm))
  have hknots_sub : ∀ x ∈ b.knots, x ∈ b.v := by
    intro x hx
    obtain ⟨i, _, hi2, rfl⟩ := (mem_knots b gb x).mp hx
    have := gb.ord.len
    exact nth_mem b.v i (by omega)
  set toIns := b.knots.flatMap fun kn => List.replicate (b.multSingle kn - a.multSingle kn) kn with htoIns
  have hsub : ∀ y ∈ toIns, y ∈ b.v := by
    intro y hy
    rw [htoIns, List.mem_flatMap] at hy
    obtain ⟨kn, hkn, hy⟩ := hy
    rw [List.eq_of_mem_replicate hy]
    exact hknots_sub kn hkn
  have hsep2 : Separated (a.v ++ toIns) := by
    apply separated_of_subset _ _ hsep
    intro y hy
    rcases List.mem_append.mp hy with h1 | h1
    · simp [h1]
    · simp [hsub y h1]
  have hlim' : a.umin = b.umin ∧ a.umax = b.umax := by simpa [KV.limits] using hlim
  have hposb : 0 < b.v.length := by have := hwb.npts_gt; omega
  have hfb : nth b.v 0 = b.umin := (umin_eq_first b.v b.deg hwb).symm
  have hlb : b.v.getLastD 0 = b.umax := by
    have := umax_eq_last b.v b.deg hwb; unfold KV.umax KV.npts; exact this.symm
  have hin : ∀ x ∈ toIns, a.umin ≤ x ∧ x ≤ a.umax := by
    intro x hx
    have := mem_nth_bounds b.v hwb.sorted x (hsub x hx)
    rw [hfb, ← getLastD_eq_nth b.v hposb, hlb, ← hlim'.1, ← hlim'.2] at this
    exact this
  have hmult : ∀ x ∈ toIns, a.umin < x → x < a.umax → cnt a.v x + cnt toIns x ≤ a.deg + 1 := by
    intro x hx _ _
    have hxb := hsub x hx
    have hxk : x ∈ b.knots := mem_v_mem_knots b gb hwb x hxb
    rw [htoIns, cnt_flatMap_replicate b.knots (knots_nodup b) (fun kn => b.multSingle kn - a.multSingle kn) x,
      if_pos hxk, hmultA x hxb, hmultB x hxb]
    have h1 := href x
    have h2 := hwb.mult_le x hxb
    omega
  obtain ⟨mins, hmins⟩ := knotInsertMat_ok a toIns hwa hsep2 hin hmult
  refine ⟨matMul mins (identity a.npts), ?_⟩
  unfold matrixTransformation
  have hl : (a.limits != b.limits) = false := by simp [hlim]
  have h0 : b.deg - a.deg = 0 := by omega
  have hnlt : ¬ b.deg < a.deg := by omega
  simp only [bind, Except.bind, pure, Except.pure, hl, Bool.false_eq_true, if_false, hnlt, h0]
  simp only [degreeIncreaseMat, if_true, pure, Except.pure]
  have hrep0 : KV.repeatList 0 a.knots = [] := by simp [KV.repeatList]
  rw [hrep0, insert_nil a hwa]
  simp only []
  rw [← htoIns, hmins]

/-- **C13 (soundness of `==`), final form for polynomial curves of equal degree.**  Well-formed knot vectors with
separated values, control points of one dimension: if the model's comparison answers True, the curves differ by at most
10⁻⁹ in every coordinate at every parameter. -/
theorem C13_eq_sound_polynomial (a b : Curve) (pa pb : List Vec) (d : Nat)
    (hPa : a.P = some pa) (hPb : b.P = some pb) (hWa : a.W = none) (hWb : b.W = none)
    (hla : pa.length = a.kv.npts) (hlb : pb.length = b.kv.npts)
    (hda : ∀ p ∈ pa, p.length = d) (hdb : ∀ p ∈ pb, p.length = d)
    (hwa : WF a.kv.v a.kv.deg) (hwb : WF b.kv.v b.kv.deg) (hsep : Separated (a.kv.v ++ b.kv.v))
    (hdeg : a.kv.deg = b.kv.deg) (h : a.eqPoly b = .ok true) (u : Rat) (hu : a.kv.umin ≤ u ∧ u ≤ a.kv.umax) :
    ∃ va vb, a.eval u = .ok va ∧ b.eval u = .ok vb ∧
      ∀ j, j < d → -tol9 ≤ va.getD j 0 - vb.getD j 0 ∧ va.getD j 0 - vb.getD j 0 ≤ tol9 := by
  have hc : ∃ c, a.kv.union b.kv = .ok c := by
    unfold Curve.eqPoly at h
    simp only [bind, Except.bind] at h
    split at h
    · cases h
    · rename_i c hcu; exact ⟨c, hcu⟩
  obtain ⟨c, hunion⟩ := hc
  obtain ⟨hwc, hcd, hsepC⟩ := union_wf_deg a.kv b.kv c hwa hwb hsep hdeg hunion
  have hvals := union_values a.kv b.kv c hunion
  have hlimAB := union_limits a.kv b.kv c hunion
  have hsepAC : Separated (a.kv.v ++ c.v) := separated_of_subset _ _ hsep (fun y hy => by
    rcases List.mem_append.mp hy with h1 | h1
    · simp [h1]
    · exact hvals y h1)
  have hsepBC : Separated (b.kv.v ++ c.v) := separated_of_subset _ _ hsep (fun y hy => by
    rcases List.mem_append.mp hy with h1 | h1
    · simp [h1]
    · exact hvals y h1)
  have hrefa := C17_union_refines_left a.kv b.kv c hwa hsep hdeg hunion
  have hrefb := C17_union_refines_right a.kv b.kv c hwb hsep hdeg hunion
  -- the interval of the union: first and last values are those of the operands
  have hlimC : a.kv.limits = c.limits := by
    -- `c` refines `a` and only has values of `a` or `b`; both have the same ends
    have hposa : 0 < a.kv.v.length := by have := hwa.npts_gt; omega
    have hposb : 0 < b.kv.v.length := by have := hwb.npts_gt; omega
    have hposc : 0 < c.v.length := by have := hwc.npts_gt; omega
    have hfa : nth a.kv.v 0 = a.kv.umin := (umin_eq_first a.kv.v a.kv.deg hwa).symm
    have hfb : nth b.kv.v 0 = b.kv.umin := (umin_eq_first b.kv.v b.kv.deg hwb).symm
    have hfc : nth c.v 0 = c.umin := (umin_eq_first c.v c.deg hwc).symm
    have hla' : a.kv.v.getLastD 0 = a.kv.umax := by
      have := umax_eq_last a.kv.v a.kv.deg hwa; unfold KV.umax KV.npts; exact this.symm
    have hlb' : b.kv.v.getLastD 0 = b.kv.umax := by
      have := umax_eq_last b.kv.v b.kv.deg hwb; unfold KV.umax KV.npts; exact this.symm
    have hlc' : c.v.getLastD 0 = c.umax := by
      have := umax_eq_last c.v c.deg hwc; unfold KV.umax KV.npts; exact this.symm
    have hmm : a.kv.umin = b.kv.umin ∧ a.kv.umax = b.kv.umax := by simpa [KV.limits] using hlimAB
    have hin_first : nth a.kv.v 0 ∈ c.v := by
      have : 0 < cnt c.v (nth a.kv.v 0) := by
        have := hrefa (nth a.kv.v 0)
        have h1 := hwa.first; rw [headD_eq_nth] at h1
        omega
      by_contra hcn
      rw [cnt_eq_count, List.count_eq_zero_of_not_mem hcn] at this; omega
    have hin_last : a.kv.v.getLastD 0 ∈ c.v := by
      have : 0 < cnt c.v (a.kv.v.getLastD 0) := by
        have := hrefa (a.kv.v.getLastD 0)
        have h1 := hwa.last
        omega
      by_contra hcn
      rw [cnt_eq_count, List.count_eq_zero_of_not_mem hcn] at this; omega
    have hall : ∀ y ∈ c.v, a.kv.umin ≤ y ∧ y ≤ a.kv.umax := by
      intro y hy
      rcases List.mem_append.mp (hvals y hy) with h1 | h1
      · have := mem_nth_bounds a.kv.v hwa.sorted y h1
        rw [hfa, ← getLastD_eq_nth a.kv.v hposa, hla'] at this; exact this
      · have := mem_nth_bounds b.kv.v hwb.sorted y h1
        rw [hfb, ← getLastD_eq_nth b.kv.v hposb, hlb', ← hmm.1, ← hmm.2] at this; exact this
    have e1 : c.umin = a.kv.umin := by
      rw [← hfc]
      apply le_antisymm
      · have := (mem_nth_bounds c.v hwc.sorted _ hin_first).1; rw [hfa] at this; exact this
      · exact (hall _ (nth_mem c.v 0 hposc)).1
    have e2 : c.umax = a.kv.umax := by
      rw [← hlc', getLastD_eq_nth c.v hposc]
      apply le_antisymm
      · exact (hall _ (nth_mem c.v _ (by omega))).2
      · have := (mem_nth_bounds c.v hwc.sorted _ hin_last).2; rw [hla'] at this; exact this
    simp [KV.limits, e1, e2]
  have hlimBC : b.kv.limits = c.limits := by rw [← hlimAB]; exact hlimC
  obtain ⟨Ma, hMa⟩ := matrixTransformation_ok a.kv c hwa hwc hsepAC hcd.symm hlimC hrefa
  obtain ⟨Mb, hMb⟩ := matrixTransformation_ok b.kv c hwb hwc hsepBC (hdeg ▸ hcd.symm) hlimBC hrefb
  exact C13_eq_sound_equal_degree a b c Ma Mb pa pb d hPa hPb hWa hWb hla hlb hda hdb hwa hwb hsep hdeg hunion hMa hMb h u hu

end NV
