/-
Props/C03.lean — property C03: every reachable KnotVector is a well-formed clamped vector;
queries agree with the element list; rejected requests leave the object unchanged.
-/
import NurbsVerif.Proofs.KV

namespace NV

/-- the public mutators of `knotspace.KnotVector` as operations of a state machine -/
inductive KVOp where
  | insert (nodes : List Rat)
  | remove (nodes : List Rat)
  | shift (a : Rat)
  | scale (s : Rat)
  | normalize
  | setDegree (d : Nat)
  | union (other : List Rat)
  | inter (other : List Rat)

def kvStep (k : KV) : KVOp → Except Err KV
  | .insert ns => k.insert ns
  | .remove ns => k.remove ns
  | .shift a => k.shift a
  | .scale s => k.scale s
  | .normalize => k.normalize
  | .setDegree d => k.setDegree d
  | .union ov => do let o ← KV.mk? ov; k.union o
  | .inter ov => do let o ← KV.mk? ov; k.inter o

/-- a rejected request leaves the object as it was -/
def kvApply (k : KV) (op : KVOp) : KV :=
  match kvStep k op with
  | .ok k' => k'
  | .error _ => k

def kvRun (k : KV) (ops : List KVOp) : KV := ops.foldl kvApply k

/-- **C03 (construction).**  On separated knot values the constructor accepts exactly the well-formed
lists, and stores the degree `multiplicity of the first value − 1`. -/
theorem C03_mk_iff_WF_exact (v : List Rat) :
    (∃ k, KV.mk? v none = .ok k) ↔ WF v (cnt v (v.headD 0) - 1) := by
  constructor
  · rintro ⟨k, hk⟩
    exact isValid_WF_exact v (mk?_ok v k hk).1
  · intro h
    have hv := WF_isValid v _ rfl h
    exact ⟨⟨v, cnt v (v.headD 0) - 1⟩, by simp [KV.mk?, hv]⟩

theorem C03_mk_iff_WF (v : List Rat) (_hsep : Separated v) :
    (∃ k, KV.mk? v none = .ok k) ↔ WF v (cnt v (v.headD 0) - 1) := C03_mk_iff_WF_exact v

/-- malformed data is rejected, and with ValueError — for every list of rationals (no separation hypothesis since the
multiplicity check of the constructor counts every value exactly) -/
theorem C03_ctor_rejects_exact (v : List Rat) (h : ¬ WF v (cnt v (v.headD 0) - 1)) :
    KV.mk? v none = .error .value := by
  cases hr : KV.mk? v none with
  | error e => rw [mk?_error v e hr]
  | ok k => exact absurd ((C03_mk_iff_WF_exact v).mp ⟨k, hr⟩) h

/-- malformed data is rejected, and with ValueError -/
theorem C03_ctor_rejects (v : List Rat) (hsep : Separated v) (h : ¬ WF v (cnt v (v.headD 0) - 1)) :
    KV.mk? v none = .error .value := by
  cases hr : KV.mk? v none with
  | error e => rw [mk?_error v e hr]
  | ok k => exact absurd ((C03_mk_iff_WF v hsep).mp ⟨k, hr⟩) h

/-- every operation ends in the validating constructor: an accepted request yields a valid state -/
theorem C03_step_inv (k : KV) (hk : KVInv k) (op : KVOp) (k' : KV) (h : kvStep k op = .ok k') : KVInv k' := by
  cases op with
  | insert ns =>
    simp only [kvStep, KV.insert] at h
    split at h
    · simp at h
    · exact inv_of_mk _ _ h
  | remove ns =>
    simp only [kvStep, KV.remove] at h
    split at h
    · simp at h
    · exact inv_of_mk _ _ h
  | shift a => exact inv_of_mk _ _ (by simpa [kvStep, KV.shift] using h)
  | scale s =>
    simp only [kvStep, KV.scale] at h
    split at h
    · simp at h
    · exact inv_of_mk _ _ h
  | normalize => exact inv_of_mk _ _ (by simpa [kvStep, KV.normalize] using h)
  | setDegree d =>
    simp only [kvStep, KV.setDegree] at h
    split at h
    · simp only [KV.remove] at h
      split at h
      · simp at h
      · exact inv_of_mk _ _ h
    · split at h
      · simp only [KV.insert] at h
        split at h
        · simp at h
        · exact inv_of_mk _ _ h
      · simp only [Except.ok.injEq] at h; subst h; exact hk
  | union ov =>
    simp only [kvStep, bind, Except.bind] at h
    split at h
    · simp at h
    · rename_i o ho
      simp only [KV.union] at h
      split at h
      · simp at h
      · split at h
        · simp at h
        · exact inv_of_mk _ _ h
  | inter ov =>
    simp only [kvStep, bind, Except.bind] at h
    split at h
    · simp at h
    · rename_i o ho
      simp only [KV.inter] at h
      split at h
      · simp at h
      · exact inv_of_mk _ _ h

/-- **C03 (reachability).**  After *any* sequence of requests — accepted or rejected — the state is valid. -/
theorem C03_reachable_inv (ops : List KVOp) : ∀ k, KVInv k → KVInv (kvRun k ops) := by
  induction ops with
  | nil => intro k hk; exact hk
  | cons op ops ih =>
    intro k hk
    simp only [kvRun, List.foldl_cons]
    apply ih
    unfold kvApply
    cases hs : kvStep k op with
    | ok k' => exact C03_step_inv k hk op k' hs
    | error e => exact hk

/-- … hence well formed: sorted, first and last value exactly `degree+1` times, `npts > degree`, every
multiplicity at most `degree+1` (on separated knot values) -/
theorem C03_reachable_WF (ops : List KVOp) (k : KV) (hk : KVInv k)
    (hsep : Separated (kvRun k ops).v) : WF (kvRun k ops).v (kvRun k ops).deg := by
  obtain ⟨h1, h2⟩ := C03_reachable_inv ops k hk
  rw [h2]
  exact isValid_WF _ hsep h1

/-- the same without any hypothesis on the knot values (holds since the constructor's multiplicity check counts every value
exactly, repair D35): **every reachable knot vector is well formed**. -/
theorem C03_reachable_WF_exact (ops : List KVOp) (k : KV) (hk : KVInv k) :
    WF (kvRun k ops).v (kvRun k ops).deg := by
  obtain ⟨h1, h2⟩ := C03_reachable_inv ops k hk
  rw [h2]
  exact isValid_WF_exact _ h1

/-- **C03 (atomic rejection).**  A rejected request leaves the object unchanged. -/
theorem C03_failed_unchanged (k : KV) (op : KVOp) (e : Err) (h : kvStep k op = .error e) :
    kvApply k op = k := by
  simp [kvApply, h]

/-- insertion / removal are rejected with ValueError, never with another exception -/
theorem C03_insert_remove_error_kind (k : KV) (ns : List Rat) (e : Err) :
    (k.insert ns = .error e → e = .value) ∧ (k.remove ns = .error e → e = .value) := by
  constructor
  · intro h
    simp only [KV.insert] at h
    split at h
    · simp only [Except.error.injEq] at h; exact h.symm
    · exact mk?_error _ e h
  · intro h
    simp only [KV.remove] at h
    split at h
    · simp only [Except.error.injEq] at h; exact h.symm
    · exact mk?_error _ e h

/-- inserting outside the interval is rejected -/
theorem C03_insert_outside (k : KV) (ns : List Rat) (x : Rat) (hx : x ∈ ns) (ho : x < k.umin ∨ k.umax < x) :
    k.insert ns = .error .value := by
  have : k.validNodes ns = false := by
    simp only [KV.validNodes, List.all_eq_false]
    refine ⟨x, hx, ?_⟩
    simp only [KV.validNode, Bool.not_eq_true, Bool.not_eq_false', Bool.or_eq_true, decide_eq_true_eq]
    exact ho
  simp [KV.insert, this]

theorem removeFirst_none (x : Rat) (l : List Rat) (hx : x ∉ l) : removeFirst x l = none := by
  induction l with
  | nil => rfl
  | cons y ys ih =>
    simp only [List.mem_cons, not_or] at hx
    have : (y == x) = false := by simpa using fun e => hx.1 e.symm
    simp [removeFirst, this, ih hx.2]

/-- removing an absent knot is rejected -/
theorem C03_remove_absent (k : KV) (x : Rat) (hx : x ∉ k.v) : k.remove [x] = .error .value := by
  simp [KV.remove, removeAll, removeFirst_none x k.v hx]

/-- a non-positive scale is rejected -/
theorem C03_scale_nonpositive (k : KV) (s : Rat) (hs : s ≤ 0) : ∃ e, k.scale s = .error e := by
  have : ¬ (0 < s) := not_lt.mpr hs
  exact ⟨.other, by simp [KV.scale, this]⟩

/-- **C03 (queries).**  `span` meets its specification; `span`/`mult` raise ValueError outside the interval;
`mult` counts occurrences. -/
theorem C03_span_spec (k : KV) (u : Rat) (s : Nat) (h : k.span u = .ok s) :
    (nth k.v s ≤ u ∧ u < nth k.v (s + 1)) ∨ (u = k.umax ∧ s = k.npts - 1) := span_spec k u s h

theorem C03_queries_outside (k : KV) (u : Rat) (h : u < k.umin ∨ k.umax < u) :
    k.span u = .error .value ∧ k.mult u = .error .value ∧ k.validNodes [u] = false := by
  refine ⟨span_outside k u h, mult_outside k u h, ?_⟩
  simp only [KV.validNodes, List.all_cons, List.all_nil, Bool.and_true, KV.validNode, Bool.not_eq_false',
    Bool.or_eq_true, decide_eq_true_eq]
  exact h

theorem C03_mult_spec (k : KV) (u : Rat) (h : ∀ x ∈ k.v, x = u ∨ tol9 ≤ rabs (u - x)) :
    k.multSingle u = cnt k.v u := mult_spec k u h

/-! non-vacuity: a degree-2 vector with a double interior knot satisfies the invariant, and the
malformed witnesses of the repaired defect D1 are rejected -/
example : KVInv ⟨[0, 0, 0, mkRat 1 4, mkRat 1 2, mkRat 1 2, 1, 1, 1], 2⟩ := by
  constructor <;> decide +kernel

example : KV.mk? [0, 0, 1, 1, 2] none = .error .value ∧ KV.mk? [1, 1] none = .error .value
    ∧ KV.mk? [0, 1, 2, 3] (some 1) = .error .value := by decide +kernel

end NV
