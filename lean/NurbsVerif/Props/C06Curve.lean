/-
Props/C06Curve.lean — property C06 at curve level for Bézier curves: `degree_increase(times)` of a polynomial Bézier
curve (any degree, any `times ≥ 1`) is accepted only with the Bézier vector of degree `p + times` and the new curve
takes the same value at every parameter.
-/
import NurbsVerif.Props.C06Bezier
import NurbsVerif.Props.C08Add
import NurbsVerif.Props.C17

namespace NV
open Finset

theorem sortedLE_replicate (n : Nat) (b : Rat) : sortedLE (List.replicate n b) = true := by
  induction n with
  | zero => rfl
  | succ n ih =>
    cases n with
    | zero => rfl
    | succ m =>
      simp only [List.replicate_succ, sortedLE, le_refl, decide_true, Bool.true_and] at ih ⊢
      exact ih

theorem sortedLE_two_blocks (n m : Nat) (a b : Rat) (hab : a < b) :
    sortedLE (List.replicate n a ++ List.replicate (m + 1) b) = true := by
  induction n with
  | zero => simpa using sortedLE_replicate (m + 1) b
  | succ n ih =>
    cases n with
    | zero =>
      simp only [List.replicate_succ, List.replicate_zero, List.nil_append, List.cons_append, sortedLE, Bool.and_eq_true,
        decide_eq_true_eq]
      exact ⟨le_of_lt hab, by simpa [List.replicate_succ] using sortedLE_replicate (m + 1) b⟩
    | succ k =>
      simp only [List.replicate_succ, List.cons_append, sortedLE, le_refl, decide_true, Bool.true_and] at ih ⊢
      exact ih

theorem sortedLE_bezList (p : Nat) (a b : Rat) (hab : a < b) : sortedLE (bezList p a b) = true :=
  sortedLE_two_blocks (p + 1) p a b hab

theorem cnt_bezList (p : Nat) (a b x : Rat) (hab : a ≠ b) :
    cnt (bezList p a b) x = if x = a then p + 1 else if x = b then p + 1 else 0 := by
  unfold bezList
  rw [cnt_append, cnt_replicate, cnt_replicate]
  by_cases h1 : x = a
  · subst h1
    have : ¬ b = x := fun e => hab e.symm
    simp [this]
  · by_cases h2 : x = b
    · subst h2
      have : ¬ a = x := fun e => h1 e.symm
      simp [this]
    · have n1 : ¬ a = x := fun e => h1 e.symm
      have n2 : ¬ b = x := fun e => h2 e.symm
      simp [h1, h2, n1, n2]

theorem cnt_repeatList (t : Nat) (l : List Rat) (x : Rat) : cnt (KV.repeatList t l) x = t * cnt l x := by
  unfold KV.repeatList
  induction t with
  | zero => simp [cnt]
  | succ t ih =>
    rw [List.replicate_succ, List.flatten_cons, cnt_append, ih]
    ring

/-- a well-formed vector with `npts = degree + 1` is the Bézier list -/
theorem bezier_kv_list (k : KV) (hwf : WF k.v k.deg) (hb : k.deg + 1 = k.npts) :
    k.v = bezList k.deg k.umin k.umax := by
  have hlen : k.v.length = 2 * k.deg + 2 := by unfold KV.npts at hb; have := hwf.npts_gt; omega
  apply List.ext_getElem (by rw [hlen, bezList_length])
  intro i h1 h2
  have hnth : nth k.v i = nth (bezList k.deg k.umin k.umax) i := by
    rw [nth_bezList _ _ _ i (by omega)]
    unfold bezKnots
    have hpos : 0 < k.v.length := by omega
    split
    · rename_i hi
      have h0 := prefix_eq_head k.v hwf.sorted (k.deg + 1) i
        (by have := hwf.first; rw [headD_eq_nth] at this; exact this) (by omega)
      rw [h0, ← umin_eq_first k.v k.deg hwf]; rfl
    · rename_i hi
      have h0 := suffix_eq_last k.v hwf.sorted (k.deg + 1) i
        (by have := hwf.last; rw [getLastD_eq_nth k.v hpos] at this; exact this) (by omega) (by omega)
      have h3 := umax_eq_last k.v k.deg hwf
      rw [getLastD_eq_nth k.v hpos] at h3
      rw [h0, ← h3]
      unfold KV.umax KV.npts; rfl
  rw [nth_eq_getElem _ i h1, nth_eq_getElem _ i h2] at hnth
  exact hnth

/-- the distinct knots of a Bézier vector occur once each in `knots`, nothing else does -/
theorem cnt_knots_bezier (k : KV) (g : GoodKV k) (hwf : WF k.v k.deg) (hb : k.deg + 1 = k.npts) (x : Rat) :
    cnt k.knots x = if x = k.umin then 1 else if x = k.umax then 1 else 0 := by
  have hnd := knots_nodup k
  have hmem : ∀ y, y ∈ k.knots ↔ (y = k.umin ∨ y = k.umax) := by
    intro y
    rw [mem_knots k g]
    constructor
    · rintro ⟨m, h1, h2, rfl⟩
      rcases Nat.lt_or_ge m (k.deg + 1) with h | h
      · left; have : m = k.deg := by omega
        subst this; rfl
      · right; have : m = k.npts := by omega
        subst this; rfl
    · rintro (rfl | rfl)
      · exact ⟨k.deg, le_refl _, by omega, rfl⟩
      · exact ⟨k.npts, by omega, le_refl _, rfl⟩
  rw [cnt_eq_count]
  by_cases h1 : x = k.umin
  · rw [if_pos h1]
    exact List.count_eq_one_of_mem hnd ((hmem x).mpr (Or.inl h1))
  · by_cases h2 : x = k.umax
    · rw [if_neg h1, if_pos h2]
      exact List.count_eq_one_of_mem hnd ((hmem x).mpr (Or.inr h2))
    · rw [if_neg h1, if_neg h2]
      apply List.count_eq_zero_of_not_mem
      intro hc
      rcases (hmem x).mp hc with h | h
      · exact h1 h
      · exact h2 h

/-- what an accepted `degree_increase(times)` of a polynomial Bézier curve produces -/
theorem bezier_degreeIncrease_unpack (c c' : Curve) (times : Nat) (pts : List Vec)
    (hP : c.P = some pts) (hW : c.W = none)
    (hwf : WF c.kv.v c.kv.deg) (hsep : Separated c.kv.v) (hbez : c.kv.deg + 1 = c.kv.npts)
    (h : c.degreeIncrease times = .ok c') :
    ∃ newk : KV, c' = ⟨newk, some (matPts (elevBezier c.kv.deg times) pts), none⟩
      ∧ newk.v = bezList (c.kv.deg + times) c.kv.umin c.kv.umax ∧ newk.deg = c.kv.deg + times
      ∧ newk.npts = c.kv.deg + times + 1 ∧ newk.umin = c.kv.umin ∧ newk.umax = c.kv.umax
      ∧ WF newk.v newk.deg ∧ Separated newk.v ∧ c.kv.umin < c.kv.umax ∧ times ≠ 0 := by
  have g : GoodKV c.kv := by
    have := goodKV_of_WF c.kv.v c.kv.deg hwf hsep
    cases hk : c.kv; rw [hk] at this; exact this
  have hlt : c.kv.umin < c.kv.umax := by
    have h1 := g.ord.mono c.kv.deg (c.kv.npts - 1) (by omega) (by have := g.ord.len; omega)
    have h2 := g.last
    unfold KV.umin KV.umax
    exact lt_of_le_of_lt h1 h2
  have hne : c.kv.umin ≠ c.kv.umax := ne_of_lt hlt
  have hv := bezier_kv_list c.kv hwf hbez
  unfold Curve.degreeIncrease at h
  simp only [bind, Except.bind] at h
  split at h
  · cases h
  · rename_i ht
    split at h
    · cases h
    · rename_i newk hins
      split at h
      · cases h
      · rename_i m hm
        -- the matrix
        have hmat : m = elevBezier c.kv.deg times := by
          unfold degreeIncreaseMat at hm
          simp only [ht, if_false, hbez, if_true, pure, Except.pure, Except.ok.injEq] at hm
          exact hm.symm
        subst hmat
        -- the new vector
        have hnv : isValid newk.v none = true ∧ newk.v = isort (c.kv.v ++ KV.repeatList times c.kv.knots)
            ∧ newk.deg = cnt newk.v (newk.v.headD 0) - 1 := by
          unfold KV.insert at hins
          split at hins
          · cases hins
          · obtain ⟨h1, h2, h3⟩ := mk?_ok _ _ hins
            rw [← h2] at h1 h3
            exact ⟨h1, h2, h3⟩
        obtain ⟨hval, hnewv, hnd⟩ := hnv
        have hlist : newk.v = bezList (c.kv.deg + times) c.kv.umin c.kv.umax := by
          rw [hnewv]
          apply sorted_eq_of_cnt _ _ (sortedLE_isort _) (sortedLE_bezList _ _ _ hlt)
          intro x
          rw [cnt_isort, cnt_append, cnt_repeatList, cnt_knots_bezier c.kv g hwf hbez x, hv,
            cnt_bezList _ _ _ x hne, cnt_bezList _ _ _ x hne]
          by_cases h1 : x = c.kv.umin
          · simp only [h1, if_true]; ring
          · by_cases h2 : x = c.kv.umax
            · rw [if_neg h1, if_pos h2, if_neg h1, if_pos h2, if_neg h1, if_pos h2]; ring
            · simp [h1, h2]
        have hdeg : newk.deg = c.kv.deg + times := by
          rw [hnd, hlist]
          have : (bezList (c.kv.deg + times) c.kv.umin c.kv.umax).headD 0 = c.kv.umin := by
            rw [headD_eq_nth, nth_bezList _ _ _ 0 (by omega)]; simp [bezKnots]
          rw [this, cnt_bezList _ _ _ _ hne]
          simp
        have hnpts : newk.npts = c.kv.deg + times + 1 := by
          unfold KV.npts; rw [hlist, bezList_length, hdeg]; omega
        have humin : newk.umin = c.kv.umin := by
          show nth newk.v newk.deg = c.kv.umin
          rw [hlist, hdeg, nth_bezList _ _ _ _ (by omega)]; simp [bezKnots]
        have humax : newk.umax = c.kv.umax := by
          show nth newk.v newk.npts = c.kv.umax
          rw [hnpts, hlist, nth_bezList _ _ _ _ (by omega)]; simp [bezKnots]
        have hsepN : Separated newk.v := by
          apply separated_of_subset _ _ hsep
          intro y hy
          rw [hlist] at hy
          unfold bezList at hy
          rcases List.mem_append.mp hy with h1 | h1
          · rw [List.eq_of_mem_replicate h1]; unfold KV.umin; exact nth_mem _ _ (by have := g.ord.len; omega)
          · rw [List.eq_of_mem_replicate h1]; unfold KV.umax; exact nth_mem _ _ (by have := g.ord.len; omega)
        have hwfN : WF newk.v newk.deg := by rw [hnd]; exact isValid_WF newk.v hsepN hval
        -- the new curve
        have hc' : c' = ⟨newk, some (matPts (elevBezier c.kv.deg times) pts), none⟩ := by
          unfold Curve.apply at h
          rw [hP, hW] at h
          simp only [Option.map_some] at h
          exact (mk?_spec _ _ _ _ h).1
        exact ⟨newk, hc', hlist, hdeg, hnpts, humin, humax, hwfN, hsepN, hlt, ht⟩

/-- **C06 (degree elevation of a Bézier curve).**  For every polynomial Bézier model curve (any degree), every
`times`: an accepted `degree_increase(times)` gives a curve on the Bézier vector of degree `p + times` that takes the
same value at every parameter of the interval. -/
theorem C06_bezier_degree_increase (c c' : Curve) (times : Nat) (pts : List Vec) (d : Nat)
    (hP : c.P = some pts) (hW : c.W = none) (hlen : pts.length = c.kv.npts) (hdim : ∀ p ∈ pts, p.length = d)
    (hwf : WF c.kv.v c.kv.deg) (hsep : Separated c.kv.v) (hbez : c.kv.deg + 1 = c.kv.npts)
    (h : c.degreeIncrease times = .ok c') (u : Rat) (hu : c.kv.umin ≤ u ∧ u ≤ c.kv.umax) :
    c'.kv.v = bezList (c.kv.deg + times) c.kv.umin c.kv.umax ∧ c'.eval u = c.eval u := by
  have g : GoodKV c.kv := by
    have := goodKV_of_WF c.kv.v c.kv.deg hwf hsep
    cases hk : c.kv; rw [hk] at this; exact this
  have hlt : c.kv.umin < c.kv.umax := by
    have h1 := g.ord.mono c.kv.deg (c.kv.npts - 1) (by omega) (by have := g.ord.len; omega)
    have h2 := g.last
    unfold KV.umin KV.umax
    exact lt_of_le_of_lt h1 h2
  have hne : c.kv.umin ≠ c.kv.umax := ne_of_lt hlt
  have hv := bezier_kv_list c.kv hwf hbez
  unfold Curve.degreeIncrease at h
  simp only [bind, Except.bind] at h
  split at h
  · cases h
  · rename_i ht
    split at h
    · cases h
    · rename_i newk hins
      split at h
      · cases h
      · rename_i m hm
        -- the matrix
        have hmat : m = elevBezier c.kv.deg times := by
          unfold degreeIncreaseMat at hm
          simp only [ht, if_false, hbez, if_true, pure, Except.pure, Except.ok.injEq] at hm
          exact hm.symm
        subst hmat
        -- the new vector
        have hnv : isValid newk.v none = true ∧ newk.v = isort (c.kv.v ++ KV.repeatList times c.kv.knots)
            ∧ newk.deg = cnt newk.v (newk.v.headD 0) - 1 := by
          unfold KV.insert at hins
          split at hins
          · cases hins
          · obtain ⟨h1, h2, h3⟩ := mk?_ok _ _ hins
            rw [← h2] at h1 h3
            exact ⟨h1, h2, h3⟩
        obtain ⟨hval, hnewv, hnd⟩ := hnv
        have hlist : newk.v = bezList (c.kv.deg + times) c.kv.umin c.kv.umax := by
          rw [hnewv]
          apply sorted_eq_of_cnt _ _ (sortedLE_isort _) (sortedLE_bezList _ _ _ hlt)
          intro x
          rw [cnt_isort, cnt_append, cnt_repeatList, cnt_knots_bezier c.kv g hwf hbez x, hv,
            cnt_bezList _ _ _ x hne, cnt_bezList _ _ _ x hne]
          by_cases h1 : x = c.kv.umin
          · simp only [h1, if_true]; ring
          · by_cases h2 : x = c.kv.umax
            · rw [if_neg h1, if_pos h2, if_neg h1, if_pos h2, if_neg h1, if_pos h2]; ring
            · simp [h1, h2]
        have hdeg : newk.deg = c.kv.deg + times := by
          rw [hnd, hlist]
          have : (bezList (c.kv.deg + times) c.kv.umin c.kv.umax).headD 0 = c.kv.umin := by
            rw [headD_eq_nth, nth_bezList _ _ _ 0 (by omega)]; simp [bezKnots]
          rw [this, cnt_bezList _ _ _ _ hne]
          simp
        have hnpts : newk.npts = c.kv.deg + times + 1 := by
          unfold KV.npts; rw [hlist, bezList_length, hdeg]; omega
        have humin : newk.umin = c.kv.umin := by
          show nth newk.v newk.deg = c.kv.umin
          rw [hlist, hdeg, nth_bezList _ _ _ _ (by omega)]; simp [bezKnots]
        have humax : newk.umax = c.kv.umax := by
          show nth newk.v newk.npts = c.kv.umax
          rw [hnpts, hlist, nth_bezList _ _ _ _ (by omega)]; simp [bezKnots]
        have hsepN : Separated newk.v := by
          apply separated_of_subset _ _ hsep
          intro y hy
          rw [hlist] at hy
          unfold bezList at hy
          rcases List.mem_append.mp hy with h1 | h1
          · rw [List.eq_of_mem_replicate h1]; unfold KV.umin; exact nth_mem _ _ (by have := g.ord.len; omega)
          · rw [List.eq_of_mem_replicate h1]; unfold KV.umax; exact nth_mem _ _ (by have := g.ord.len; omega)
        have hwfN : WF newk.v newk.deg := by rw [hnd]; exact isValid_WF newk.v hsepN hval
        -- the new curve
        have hc' : c' = ⟨newk, some (matPts (elevBezier c.kv.deg times) pts), none⟩ := by
          unfold Curve.apply at h
          rw [hP, hW] at h
          simp only [Option.map_some] at h
          exact (mk?_spec _ _ _ _ h).1
        refine ⟨by rw [hc']; exact hlist, ?_⟩
        obtain ⟨sE, hrep⟩ := C06_bezier_elevation c.kv.umin c.kv.umax hlt times c.kv.deg
        rw [hc', C01_eval_eq_def_WF _ _ u rfl hwfN hsepN (by rw [humin, humax]; exact hu) (by intro ws hws; cases hws),
          C01_eval_eq_def_WF c pts u hP hwf hsep hu (by intro ws hws; rw [hW] at hws; cases hws)]
        congr 1
        rw [hW]
        unfold curveDef
        simp only []
        rw [hlist, humax, hnpts, hdeg, hv]
        -- coordinates
        have hn0 : 0 < c.kv.deg + 1 := by omega
        have hlen' : pts.length = c.kv.deg + 1 := by rw [hlen, hbez]
        set E := elevBezier c.kv.deg times with hE
        have dQ := matPts_dims E pts d _ _ sE hlen' hn0 hdim
        have lQ : (matPts E pts).length = c.kv.deg + times + 1 := by simp [matPts, sE.1]
        have lr1 : (cdbRow (bezList (c.kv.deg + times) c.kv.umin c.kv.umax) c.kv.umax (c.kv.deg + times + 1)
            (c.kv.deg + times) u).length = (matPts E pts).length := by simp [cdbRow, lQ]
        have lr2 : (cdbRow (bezList c.kv.deg c.kv.umin c.kv.umax) c.kv.umax c.kv.npts c.kv.deg u).length = pts.length := by
          simp [cdbRow, hlen]
        obtain ⟨l1, c1⟩ := lincomb_spec _ (matPts E pts) d lr1 (by omega) dQ
        obtain ⟨l2, c2⟩ := lincomb_spec _ pts d lr2 (by omega) hdim
        apply vec_ext_getD _ _ (by rw [l1, l2])
        intro j
        rw [c1 j, c2 j, coordCol_matPts E pts d _ _ sE hlen' hn0 hdim j, ← hbez]
        exact hrep u hu (coordCol pts j) (by simp [coordCol, hlen'])

end NV
