/-
Props/C20List.lean — property C20, the list level of the exact crossing oracle that judges `curve_and_curve`:

* `C20_parallel_no_meeting` — two straight pieces whose directions are dependent (`det = 0`) and which the oracle does not
  flag as collinear have no meeting pair at all, so together with `C20_segment_pair` every pair of pieces is either
  flagged degenerate or contributes exactly its meeting pairs;
* `mem_dedupPairs`, `dedupPairs_nodup` — the reported list has the same members as the collected solutions and no pair
  twice ("without duplicates" is decided against a duplicate-free reference).
-/
import NurbsVerif.Props.C20
import Mathlib.Tactic.LinearCombination

namespace NV

/-- dependent directions, not collinear: the 2×2 system has no solution -/
theorem C20_parallel_no_meeting (a11 a12 a21 a22 r1 r2 : Rat) (hdet : a11 * a22 - a12 * a21 = 0)
    (hnc : ¬ (a11 * r2 - a21 * r1 = 0 ∧ a12 * r2 - a22 * r1 = 0)) (t u : Rat) :
    ¬ (a11 * t + a12 * u = r1 ∧ a21 * t + a22 * u = r2) := by
  rintro ⟨h1, h2⟩
  apply hnc
  constructor
  · linear_combination u * hdet - a11 * h2 + a21 * h1
  · linear_combination (-t) * hdet - a12 * h2 + a22 * h1

theorem mem_dedupPairs (l : List (Rat × Rat)) (y : Rat × Rat) : y ∈ dedupPairs l ↔ y ∈ l := by
  induction l with
  | nil => simp [dedupPairs]
  | cons x xs ih =>
    simp only [dedupPairs, List.mem_cons, List.mem_filter, ih]
    constructor
    · rintro (h | ⟨h, _⟩)
      · exact Or.inl h
      · exact Or.inr h
    · rintro (h | h)
      · exact Or.inl h
      · by_cases e : y = x
        · exact Or.inl e
        · right
          refine ⟨h, ?_⟩
          simp only [Bool.not_eq_true', Bool.and_eq_false_iff, beq_eq_false_iff_ne, ne_eq]
          by_contra hc
          push Not at hc
          exact e (Prod.ext hc.1 hc.2)

theorem dedupPairs_nodup (l : List (Rat × Rat)) : (dedupPairs l).Nodup := by
  induction l with
  | nil => simp [dedupPairs]
  | cons x xs ih =>
    simp only [dedupPairs, List.nodup_cons, List.mem_filter]
    refine ⟨?_, ih.sublist List.filter_sublist⟩
    rintro ⟨_, h⟩
    simp at h

end NV
