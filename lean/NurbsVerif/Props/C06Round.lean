/-
Props/C06Round.lean — property C06, "reduction undoes elevation" for Bézier curves: `degree_increase(t)` followed by an
accepted `degree_decrease(t, tolerance)` gives back exactly the original curve (every degree, every `t`).
The reduction refits by least squares; `fit_left_inverse` needs only that the elevation matrix reproduces the lower
space in the higher one (`C06_bezier_elevation`).
-/
import NurbsVerif.Props.C06Curve
import NurbsVerif.Props.C05Round

namespace NV
open Finset

/-- the elevation matrix as a (degree-changing) reproducing matrix between the two Bézier vectors -/
theorem bezier_reproW (k newk : KV) (t : Nat) (hwf : WF k.v k.deg) (hbez : k.deg + 1 = k.npts)
    (hlt : k.umin < k.umax)
    (hv : newk.v = bezList (k.deg + t) k.umin k.umax) (hd : newk.deg = k.deg + t) (hn : newk.npts = k.deg + t + 1)
    (hmax : newk.umax = k.umax) : ReproW k newk (elevBezier k.deg t) := by
  obtain ⟨sE, hrep⟩ := C06_bezier_elevation k.umin k.umax hlt t k.deg
  refine ⟨by rw [hn, ← hbez]; exact sE, ?_⟩
  intro f hf u hu
  rw [hv, hmax, hn, hd, bezier_kv_list k hwf hbez, ← hbez]
  exact hrep u hu f (by rw [hf, hbez])

/-- **C06 (reduction undoes elevation), Bézier curves.** -/
theorem C06_bezier_elevate_then_reduce (c c1 c2 : Curve) (t : Nat) (pts : List Vec) (d : Nat) (tol : Option Rat)
    (hP : c.P = some pts) (hW : c.W = none) (hlen : pts.length = c.kv.npts) (hdim : ∀ p ∈ pts, p.length = d)
    (hwf : WF c.kv.v c.kv.deg) (hsep : Separated c.kv.v) (hbez : c.kv.deg + 1 = c.kv.npts)
    (h1 : c.degreeIncrease t = .ok c1) (h2 : c1.degreeDecrease t tol = .ok c2) : c2 = c := by
  obtain ⟨k, hc1, hkv, hkd, hkn, hkmin, hkmax, hwk, hsepK, hlt, ht⟩ :=
    bezier_degreeIncrease_unpack c c1 t pts hP hW hwf hsep hbez h1
  subst hc1
  have hne : c.kv.umin ≠ c.kv.umax := ne_of_lt hlt
  have g0 : GoodKV c.kv := by
    have := goodKV_of_WF c.kv.v c.kv.deg hwf hsep
    cases hk : c.kv; rw [hk] at this; exact this
  have g1 : GoodKV k := by
    have := goodKV_of_WF k.v k.deg hwk hsepK
    cases k; exact this
  have hc0 : orderedCheck c.kv = true := by
    have := orderedCheck_of_WF c.kv.v c.kv.deg hwf
    cases hk : c.kv; rw [hk] at this; exact this
  have hc1 : orderedCheck k = true := by
    have := orderedCheck_of_WF k.v k.deg hwk
    cases k; exact this
  have hrepW := bezier_reproW c.kv k t hwf hbez hlt hkv hkd hkn hkmax
  have hn0 : 0 < c.kv.npts := by omega
  have hn1 : 0 < k.npts := by omega
  unfold Curve.degreeDecrease at h2
  simp only [ht, if_false, bind, Except.bind] at h2
  have hnl : ¬ k.deg < t := by omega
  simp only [hnl, if_false] at h2
  split at h2
  · cases h2
  · rename_i newk hset
    -- lowering the degree of the elevated vector gives the original vector
    have hnewk : newk = c.kv := by
      unfold KV.setDegree at hset
      have hlt' : k.deg - t < k.deg := by omega
      rw [if_pos hlt'] at hset
      have hsub : k.deg - (k.deg - t) = t := by omega
      rw [hsub] at hset
      unfold KV.remove at hset
      split at hset
      · cases hset
      · rename_i l hl
        obtain ⟨p1, s1⟩ := removeAll_perm _ k.v l hl
        have hsl : sortedLE l = true := by
          -- a sublist of a sorted list is sorted; go through Pairwise
          have hp := (pairwise_of_sortedLE k.v hwk.sorted).sublist s1
          have : isort l = l := by
            rw [isort_eq_insertionSort]
            apply List.Perm.eq_of_pairwise (le := (· ≤ ·))
            · intro a b _ _ h1 h2; exact le_antisymm h1 h2
            · exact List.pairwise_insertionSort _ _
            · exact hp
            · exact List.perm_insertionSort _ _
          rw [← this]; exact sortedLE_isort l
        have hl' : l = c.kv.v := by
          rw [bezier_kv_list c.kv hwf hbez]
          apply sorted_eq_of_cnt l _ hsl (sortedLE_bezList _ _ _ hlt)
          intro x
          have hc := (List.perm_iff_count.mp p1) x
          rw [← cnt_eq_count, ← cnt_eq_count, cnt_append, cnt_repeatList, cnt_knots_bezier k g1 hwk (by omega) x,
            hkv, cnt_bezList _ _ _ x hne, hkmin, hkmax] at hc
          rw [cnt_bezList _ _ _ x hne]
          by_cases e1 : x = c.kv.umin
          · simp only [if_pos e1] at hc ⊢; omega
          · by_cases e2 : x = c.kv.umax
            · simp only [if_neg e1, if_pos e2] at hc ⊢; omega
            · simp only [if_neg e1, if_neg e2] at hc ⊢; omega
        rw [hl', mk?_self c.kv hwf] at hset
        simp only [Except.ok.injEq] at hset
        exact hset.symm
    subst hnewk
    unfold Curve.update at h2
    have hneq : (c.kv == k) = false := by
      have : c.kv ≠ k := by
        intro e
        have hl : c.kv.deg = k.deg := congrArg (fun x => x.deg) e
        omega
      simpa using this
    simp only [hneq, Bool.false_eq_true, if_false, bind, Except.bind, pure, Except.pure] at h2
    split at h2
    · cases h2
    · simp only [Curve.updatePoly, Curve.fitSpline, bind, Except.bind, pure, Except.pure] at h2
      split at h2
      · cases h2
      · rename_i q hq
        split at hq
        · cases hq
        · rename_i res hres
          split at hres
          · cases hres
          · rename_i TE hTE
            obtain ⟨T, E⟩ := TE
            simp only [Except.ok.injEq] at hres
            subst hres
            simp only [] at hq
            split at hq
            · cases hq
            · simp only [Except.ok.injEq] at hq
              subst hq
              have hc2 := (mk?_spec _ _ _ _ h2).1
              have hfn : ∀ ns, (if c.kv.deg != 0 then some c.kv.knots else none) = some ns → ns ≠ [] := by
                intro ns hns
                split at hns
                · simp only [Option.some.injEq] at hns; subst hns; exact knots_ne_nil c.kv g0
                · cases hns
              obtain ⟨sT, hTM⟩ := fit_left_inverse c.kv k (elevBezier c.kv.deg t) T E _ hfn hrepW g0 g1 hc0 hc1 hTE
              rw [hc2, ← matPts_matMul T _ _ _ _ d sT hrepW.shaped hn1 hn0 hn0 pts hlen hdim, hTM, ← hlen,
                matPts_identity pts d hdim (by omega)]
              cases c
              simp only at hP hW
              simp [hP, hW]

end NV
