/-
Props/C08Sub.lean — property C08 for the public operators `A + B` and `A - B` of polynomial curves of equal degree
(the dispatch `add` → `addPoly`, `sub` = `add ∘ neg`): the result is the pointwise sum / difference at every parameter.
-/
import NurbsVerif.Props.C08Union

namespace NV

theorem C08_add_operator (a b s : Curve) (pa pb : List Vec) (d : Nat)
    (hPa : a.P = some pa) (hPb : b.P = some pb) (hWa : a.W = none) (hWb : b.W = none)
    (hla : pa.length = a.kv.npts) (hlb : pb.length = b.kv.npts)
    (hda : ∀ p ∈ pa, p.length = d) (hdb : ∀ p ∈ pb, p.length = d)
    (hwa : WF a.kv.v a.kv.deg) (hwb : WF b.kv.v b.kv.deg) (hsep : Separated (a.kv.v ++ b.kv.v))
    (hdeg : a.kv.deg = b.kv.deg) (h : a.add b = .ok s) (u : Rat) (hu : a.kv.umin ≤ u ∧ u ≤ a.kv.umax) :
    ∃ va vb, a.eval u = .ok va ∧ b.eval u = .ok vb ∧ s.eval u = .ok (vadd va vb) := by
  unfold Curve.add at h
  simp only [bind, Except.bind] at h
  split at h
  · cases h
  · rw [hWa, hWb] at h
    simp only [] at h
    exact C08_add_equal_degree a b s pa pb d hPa hPb hWa hWb hla hlb hda hdb hwa hwb hsep hdeg h u hu

/-- **C08: `(A − B)(u) = A(u) − B(u)`** for polynomial curves of equal degree, at every parameter. -/
theorem C08_sub_operator (a b s : Curve) (pa pb : List Vec) (d : Nat)
    (hPa : a.P = some pa) (hPb : b.P = some pb) (hWa : a.W = none) (hWb : b.W = none)
    (hla : pa.length = a.kv.npts) (hlb : pb.length = b.kv.npts)
    (hda : ∀ p ∈ pa, p.length = d) (hdb : ∀ p ∈ pb, p.length = d)
    (hwa : WF a.kv.v a.kv.deg) (hwb : WF b.kv.v b.kv.deg) (hsep : Separated (a.kv.v ++ b.kv.v))
    (hdeg : a.kv.deg = b.kv.deg) (h : a.sub b = .ok s) (u : Rat) (hu : a.kv.umin ≤ u ∧ u ≤ a.kv.umax) :
    ∃ va vb, a.eval u = .ok va ∧ b.eval u = .ok vb ∧ s.eval u = .ok (vadd va (vscale (-1) vb)) := by
  unfold Curve.sub at h
  simp only [bind, Except.bind] at h
  split at h
  · cases h
  · rename_i nb hnb
    have hneg := C08_neg b nb hnb u
    -- the negated curve: same knot vector, no weights, points scaled by −1
    have hnbdef : nb = { b with P := some (pb.map (vscale (-1))) } := by
      unfold Curve.neg Curve.mapPts at hnb
      rw [hPb] at hnb
      simp only [Except.ok.injEq] at hnb
      exact hnb.symm
    have hkv : nb.kv = b.kv := by rw [hnbdef]
    have hPn : nb.P = some (pb.map (vscale (-1))) := by rw [hnbdef]
    have hWn : nb.W = none := by rw [hnbdef]; exact hWb
    obtain ⟨va, vn, e1, e2, e3⟩ := C08_add_operator a nb s pa (pb.map (vscale (-1))) d hPa hPn hWa hWn hla
      (by rw [List.length_map, hkv]; exact hlb) hda
      (by intro p hp; obtain ⟨q, hq, rfl⟩ := List.mem_map.mp hp; simp [vscale, hdb q hq])
      hwa (by rw [hkv]; exact hwb) (by rw [hkv]; exact hsep) (by rw [hkv]; exact hdeg) h u hu
    rw [hneg] at e2
    cases hb : b.eval u with
    | error e => rw [hb] at e2; cases e2
    | ok vb =>
      rw [hb] at e2
      simp only [Except.map, Except.ok.injEq] at e2
      refine ⟨va, vb, e1, rfl, ?_⟩
      rw [e3, e2]

end NV
