/-
Props/C13.lean — property C13 (curve equality): **soundness of `==` for polynomial curves of equal degree** — if the
model's comparison answers True, the two curves differ by at most the comparison tolerance 10⁻⁹ in every coordinate at
every parameter.  (`==` refits both operands onto the union knot vector — which, onto a refinement, is exactly knot
insertion: `fit_to_refinement` — and compares control points; the B-spline basis is a partition of unity.)
Completeness (equal functions ⇒ True) needs the linear independence of the basis and is decided per input by the
oracle `rf.eq`.
-/
import NurbsVerif.Proofs.FitRefine
import NurbsVerif.Props.C08Add

namespace NV
open Finset

/-- what `update(newknotvector)` produces for a polynomial curve when the new vector refines the old one -/
theorem update_refine_spec (a a' : Curve) (c : KV) (M : Mat) (pts : List Vec) (d : Nat) (tol : Option Rat)
    (hP : a.P = some pts) (hW : a.W = none) (hlen : pts.length = a.kv.npts) (hdim : ∀ p ∈ pts, p.length = d)
    (hrep : Repro a.kv c M) (g0 : GoodKV a.kv) (g1 : GoodKV c)
    (hc0 : orderedCheck a.kv = true) (hc1 : orderedCheck c = true)
    (h : a.update c tol none = .ok a') :
    ∃ x : List Vec, a' = ⟨c, some x, none⟩ ∧ x.length = c.npts ∧ (∀ p ∈ x, p.length = d)
      ∧ ∀ u, a.kv.umin ≤ u ∧ u ≤ a.kv.umax →
          lincomb (cdbRow c.v c.umax c.npts c.deg u) x = lincomb (cdbRow a.kv.v a.kv.umax a.kv.npts a.kv.deg u) pts := by
  have hn0 : 0 < a.kv.npts := by have := g0.deg_lt; omega
  have hn1 : 0 < c.npts := by have := g1.deg_lt; omega
  unfold Curve.update at h
  by_cases hsame : (c == a.kv) = true
  · -- nothing to do: the curve itself
    simp only [hsame, if_true, pure, Except.pure, Except.ok.injEq] at h
    subst h
    have hc : c = a.kv := by simpa using hsame
    subst hc
    refine ⟨pts, ?_, hlen, hdim, fun u _ => rfl⟩
    cases a
    simp only at hP hW
    simp [hP, hW]
  · simp only [hsame, Bool.false_eq_true, if_false, bind, Except.bind, pure, Except.pure, hP, hW] at h
    split at h
    · cases h
    · simp only [Curve.updatePoly, Curve.fitSpline, bind, Except.bind, pure, Except.pure] at h
      split at h
      · cases h
      · rename_i q hq
        split at hq
        · cases hq
        · rename_i res hres
          split at hres
          · cases hres
          · rename_i TE hTE
            obtain ⟨T, E⟩ := TE
            simp only [Except.ok.injEq] at hres
            subst hres
            simp only [] at hq
            split at hq
            · cases hq
            · simp only [Except.ok.injEq] at hq
              subst hq
              have hT := fit_to_refinement a.kv c M T E hrep g0 g1 hc0 hc1 hTE
              subst hT
              refine ⟨matPts T pts, (mk?_spec _ _ _ _ h).1, by simp [matPts, hrep.shaped.1],
                matPts_dims T pts d _ _ hrep.shaped hlen hn0 hdim, ?_⟩
              intro u hu
              exact repro_lincomb a.kv c T hrep pts d hlen hdim hn0 hn1 u hu

theorem rabs_le (x t : Rat) (h : ¬ (rabs x > t)) : -t ≤ x ∧ x ≤ t := by
  unfold rabs at h
  split at h <;> constructor <;> linarith

/-- the control-point comparison of `==`: every coordinate of every pair is within the tolerance -/
theorem compare_spec (pa pb : List Vec) (n d : Nat) (ha : pa.length = n) (hb : pb.length = n)
    (da : ∀ p ∈ pa, p.length = d) (db : ∀ p ∈ pb, p.length = d)
    (h : ((pa.zip pb).all fun (p, q) => (List.zipWith (fun x y => rabs (x - y)) p q).all fun e => !(decide (e > tol9))) = true)
    (i j : Nat) (hi : i < n) (hj : j < d) :
    -tol9 ≤ (pa.getD i []).getD j 0 - (pb.getD i []).getD j 0 ∧ (pa.getD i []).getD j 0 - (pb.getD i []).getD j 0 ≤ tol9 := by
  have h1 : i < pa.length := by omega
  have h2 : i < pb.length := by omega
  have hz : (pa[i], pb[i]) ∈ pa.zip pb := by
    rw [List.mem_iff_getElem]
    exact ⟨i, by simp; omega, by simp⟩
  have hrow := List.all_eq_true.mp h _ hz
  simp only [] at hrow
  have l1 : (pa[i]).length = d := da _ (List.getElem_mem h1)
  have l2 : (pb[i]).length = d := db _ (List.getElem_mem h2)
  have hmem : rabs ((pa[i])[j]'(by omega) - (pb[i])[j]'(by omega)) ∈ List.zipWith (fun x y => rabs (x - y)) pa[i] pb[i] := by
    rw [List.mem_iff_getElem]
    exact ⟨j, by simp [l1, l2, hj], by simp⟩
  have := List.all_eq_true.mp hrow _ hmem
  simp only [Bool.not_eq_true', decide_eq_false_iff_not] at this
  have e := rabs_le _ _ this
  simpa [List.getD_eq_getElem?_getD, h1, h2, l1, l2, hj] using e

theorem cdbRow_nonneg (k : KV) (g : GoodKV k) (u : Rat) (hu : k.umin ≤ u ∧ u ≤ k.umax) (i : Nat) (hi : i < k.npts) :
    0 ≤ (cdbRow k.v k.umax k.npts k.deg u).getD i 0 := by
  obtain ⟨s, hs1, hs2, hin⟩ := exists_span k g u hu
  have hlen := g.ord.len
  rw [cdbRow_getD k.v k.umax k.npts k.deg u i hi, cdb_eq_cdbF]
  exact cdbF_nonneg (nth k.v) k.umax (k.v.length - 1) g.ord.mono g.ord.le_umax s u (by omega) hin k.deg i (by omega)

/-- **C13 (soundness of `==`, polynomial curves of equal degree).**  If the comparison on the common refinement
answers True, then at every parameter and in every coordinate the two curves differ by at most 10⁻⁹. -/
theorem C13_eq_sound (a b : Curve) (c : KV) (Ma Mb : Mat) (pa pb : List Vec) (d : Nat)
    (hPa : a.P = some pa) (hPb : b.P = some pb) (hWa : a.W = none) (hWb : b.W = none)
    (hla : pa.length = a.kv.npts) (hlb : pb.length = b.kv.npts)
    (hda : ∀ p ∈ pa, p.length = d) (hdb : ∀ p ∈ pb, p.length = d)
    (hwa : WF a.kv.v a.kv.deg) (hwb : WF b.kv.v b.kv.deg) (hwc : WF c.v c.deg)
    (hsep : Separated (a.kv.v ++ b.kv.v ++ c.v))
    (hunion : a.kv.union b.kv = .ok c) (hrepA : Repro a.kv c Ma) (hrepB : Repro b.kv c Mb)
    (h : a.eqPoly b = .ok true) (u : Rat) (hu : c.umin ≤ u ∧ u ≤ c.umax) :
    ∃ va vb, a.eval u = .ok va ∧ b.eval u = .ok vb ∧
      ∀ j, j < d → -tol9 ≤ va.getD j 0 - vb.getD j 0 ∧ va.getD j 0 - vb.getD j 0 ≤ tol9 := by
  have hsepA : Separated a.kv.v := separated_of_subset _ _ hsep (fun y hy => by simp [hy])
  have hsepB : Separated b.kv.v := separated_of_subset _ _ hsep (fun y hy => by simp [hy])
  have hsepC : Separated c.v := separated_of_subset _ _ hsep (fun y hy => by simp [hy])
  have gA : GoodKV a.kv := by
    have := goodKV_of_WF a.kv.v a.kv.deg hwa hsepA
    cases hk : a.kv; rw [hk] at this; exact this
  have gB : GoodKV b.kv := by
    have := goodKV_of_WF b.kv.v b.kv.deg hwb hsepB
    cases hk : b.kv; rw [hk] at this; exact this
  have gC : GoodKV c := by
    have := goodKV_of_WF c.v c.deg hwc hsepC
    cases c; exact this
  have cA : orderedCheck a.kv = true := by
    have := orderedCheck_of_WF a.kv.v a.kv.deg hwa
    cases hk : a.kv; rw [hk] at this; exact this
  have cB : orderedCheck b.kv = true := by
    have := orderedCheck_of_WF b.kv.v b.kv.deg hwb
    cases hk : b.kv; rw [hk] at this; exact this
  have cC : orderedCheck c = true := by
    have := orderedCheck_of_WF c.v c.deg hwc
    cases c; exact this
  have hua : a.kv.umin ≤ u ∧ u ≤ a.kv.umax := by rw [← hrepA.umin, ← hrepA.umax]; exact hu
  have hub : b.kv.umin ≤ u ∧ u ≤ b.kv.umax := by rw [← hrepB.umin, ← hrepB.umax]; exact hu
  unfold Curve.eqPoly at h
  simp only [hunion, bind, Except.bind] at h
  split at h
  · cases h
  · rename_i a' ha'
    split at h
    · cases h
    · rename_i b' hb'
      obtain ⟨x, hax, lx, dx, ex⟩ := update_refine_spec a a' c Ma pa d _ hPa hWa hla hda hrepA gA gC cA cC ha'
      obtain ⟨y, hby, ly, dy, ey⟩ := update_refine_spec b b' c Mb pb d _ hPb hWb hlb hdb hrepB gB gC cB cC hb'
      subst hax hby
      simp only [pure, Except.pure, Except.ok.injEq] at h
      refine ⟨_, _, C01_eval_eq_def_WF a pa u hPa hwa hsepA hua (by intro ws hws; rw [hWa] at hws; cases hws),
        C01_eval_eq_def_WF b pb u hPb hwb hsepB hub (by intro ws hws; rw [hWb] at hws; cases hws), ?_⟩
      intro j hj
      rw [hWa, hWb]
      unfold curveDef
      simp only []
      rw [← ex u hua, ← ey u hub]
      set row := cdbRow c.v c.umax c.npts c.deg u with hrow
      have lrow : row.length = c.npts := by simp [hrow, cdbRow]
      have hn1 : 0 < c.npts := by have := gC.deg_lt; omega
      obtain ⟨_, c1⟩ := lincomb_spec row x d (by rw [lrow, lx]) (by omega) dx
      obtain ⟨_, c2⟩ := lincomb_spec row y d (by rw [lrow, ly]) (by omega) dy
      rw [c1 j, c2 j, dot_eq_sum row _ c.npts lrow (by simp [coordCol, lx]),
        dot_eq_sum row _ c.npts lrow (by simp [coordCol, ly]), ← sum_sub_distrib]
      have e : ∀ i ∈ range c.npts, row.getD i 0 * (coordCol x j).getD i 0 - row.getD i 0 * (coordCol y j).getD i 0
          = row.getD i 0 * ((x.getD i []).getD j 0 - (y.getD i []).getD j 0) := by
        intro i hi
        simp only [mem_range] at hi
        have h1 : i < x.length := by omega
        have h2 : i < y.length := by omega
        simp only [coordCol, List.getD_eq_getElem?_getD, List.getElem?_map, List.getElem?_eq_getElem h1,
          List.getElem?_eq_getElem h2, Option.map_some, Option.getD_some]
        ring
      rw [sum_congr rfl e]
      apply convex_combination_bounds c.npts (fun i => row.getD i 0) _ (-tol9) tol9
      · intro i hi; exact cdbRow_nonneg c gC u hu i hi
      · exact cdbRow_sum_one c gC u hu
      · intro i hi; exact (compare_spec x y c.npts d lx ly dx dy h i j hi hj).1
      · intro i hi; exact (compare_spec x y c.npts d lx ly dx dy h i j hi hj).2

end NV
