/-
Props/C06Bezier.lean — property C06 for Bézier curves: the matrix of `degree_increase_bezier_once` reproduces every
Bézier function one degree higher, on the model's knot lists, at every parameter of the interval.
-/
import NurbsVerif.Proofs.BezierElev
import NurbsVerif.Proofs.InsertStep

namespace NV
open Finset

/-- the knot list of a Bézier vector -/
def bezList (p : Nat) (a b : Rat) : List Rat := List.replicate (p + 1) a ++ List.replicate (p + 1) b

theorem bezList_length (p : Nat) (a b : Rat) : (bezList p a b).length = 2 * p + 2 := by simp [bezList]; omega

theorem nth_bezList (p : Nat) (a b : Rat) (i : Nat) (hi : i < 2 * p + 2) : nth (bezList p a b) i = bezKnots p a b i := by
  unfold nth bezList bezKnots
  by_cases h : i ≤ p
  · have h1 : i < (List.replicate (p + 1) a).length := by simp; omega
    rw [List.getD_eq_getElem?_getD, List.getElem?_append_left h1, if_pos h, List.getElem?_eq_getElem h1]
    simp
  · have h1 : (List.replicate (p + 1) a).length ≤ i := by simp; omega
    have h2 : i - (List.replicate (p + 1) a).length < (List.replicate (p + 1) b).length := by simp; omega
    rw [List.getD_eq_getElem?_getD, List.getElem?_append_right h1, if_neg h, List.getElem?_eq_getElem h2]
    simp

theorem cdbSpan_congr_knots (t t' : Nat → Rat) (sz : Nat) (u : Rat) :
    ∀ j i, (∀ m, m ≤ i + j + 1 → t m = t' m) → cdbSpan t sz i j u = cdbSpan t' sz i j u := by
  intro j
  induction j with
  | zero => intro i _; simp [cdbSpan]
  | succ j ih =>
    intro i h
    simp only [cdbSpan]
    rw [ih i (fun m hm => h m (by omega)), ih (i + 1) (fun m hm => h m (by omega)),
      h i (by omega), h (i + j + 1) (by omega), h (i + j + 2) (by omega), h (i + 1) (by omega)]

theorem spanSum_congr_knots (t t' : Nat → Rat) (sz j : Nat) (u : Rat) (P : Nat → Rat)
    (h : ∀ m, m ≤ sz + j + 1 → t m = t' m) : spanSum t sz j u P = spanSum t' sz j u P := by
  unfold spanSum
  apply sum_congr rfl
  intro i hi
  simp only [mem_range] at hi
  rw [cdbSpan_congr_knots t t' sz u j i (fun m hm => h m (by omega))]

theorem bezList_mono (p : Nat) (a b : Rat) (hab : a < b) : MonoUpTo (nth (bezList p a b)) ((bezList p a b).length - 1) := by
  intro x y hxy hy
  rw [bezList_length] at hy
  rw [nth_bezList p a b x (by omega), nth_bezList p a b y (by omega)]
  unfold bezKnots
  split <;> split <;> first | exact le_refl _ | exact le_of_lt hab | (exfalso; omega)

theorem bezList_le_umax (p : Nat) (a b : Rat) (hab : a < b) :
    ∀ i, i ≤ (bezList p a b).length - 1 → nth (bezList p a b) i ≤ b := by
  intro i hi
  rw [bezList_length] at hi
  rw [nth_bezList p a b i (by omega)]
  unfold bezKnots
  split
  · exact le_of_lt hab
  · exact le_refl _

theorem bezList_inSpan (p : Nat) (a b u : Rat) (hab : a < b) (hu : a ≤ u ∧ u ≤ b) :
    InSpan (nth (bezList p a b)) b p u := by
  have h1 : nth (bezList p a b) p = a := by rw [nth_bezList p a b p (by omega)]; simp [bezKnots]
  have h2 : nth (bezList p a b) (p + 1) = b := by rw [nth_bezList p a b (p + 1) (by omega)]; simp [bezKnots]
  unfold InSpan
  rw [h1, h2]
  by_cases hb : u = b
  · exact Or.inr ⟨hb, hab, rfl⟩
  · exact Or.inl ⟨hu.1, lt_of_le_of_ne hu.2 hb⟩

/-- `Σ f_i B_{i,p}` on the model's Bézier knot list, as a span sum over the Bézier knot function -/
theorem bezier_dot (p : Nat) (a b u : Rat) (hab : a < b) (hu : a ≤ u ∧ u ≤ b) (f : List Rat) (hf : f.length = p + 1) :
    dot (cdbRow (bezList p a b) b (p + 1) p u) f = spanSum (bezKnots p a b) p p u (fun i => f.getD i 0) := by
  rw [dot_cdbRow_eq_spanSum (bezList p a b) b (p + 1) p p u f (bezList_mono p a b hab) (bezList_le_umax p a b hab)
    (by rw [bezList_length]; omega) (by omega) (bezList_inSpan p a b u hab hu) hf]
  apply spanSum_congr_knots
  intro m hm
  exact nth_bezList p a b m (by omega)

/-- **C06 (Bézier elevation, one degree).**  For every degree `p`, every interval `a < b`, every coefficient list and
every parameter of `[a, b]`: the coefficients `E f` (`E` = the model of `degree_increase_bezier_once(p)`) over the Bézier
vector of degree `p+1` give the same function as `f` over the Bézier vector of degree `p`. -/
theorem C06_bezier_elevation_once (p : Nat) (a b u : Rat) (hab : a < b) (hu : a ≤ u ∧ u ≤ b) (f : List Rat)
    (hf : f.length = p + 1) :
    dot (cdbRow (bezList (p + 1) a b) b (p + 2) (p + 1) u) (matVec (elevBezierOnce p) f)
      = dot (cdbRow (bezList p a b) b (p + 1) p u) f := by
  have hl : (matVec (elevBezierOnce p) f).length = p + 1 + 1 := by simp [matVec, elevBezierOnce]
  rw [bezier_dot (p + 1) a b u hab hu _ hl, bezier_dot p a b u hab hu f hf,
    bezier_spanSum_elevate p a b u hab (fun i => f.getD i 0)]
  apply spanSum_congr
  intro i _ hi
  exact elevBezierOnce_row p f hf i (by omega)

theorem elevBezierOnce_shaped (p : Nat) : Shaped (elevBezierOnce p) (p + 2) (p + 1) := by
  refine ⟨by simp [elevBezierOnce], ?_⟩
  intro row hrow
  simp only [elevBezierOnce, List.mem_map, List.mem_range] at hrow
  obtain ⟨i, _, rfl⟩ := hrow
  simp

/-- **C06 (Bézier elevation, any number of degrees).**  The model of `degree_increase_bezier(p, t)` has shape
`(p+t+1) × (p+1)` and reproduces every Bézier function of degree `p` at degree `p+t`, at every parameter. -/
theorem C06_bezier_elevation (a b : Rat) (hab : a < b) :
    ∀ (t p : Nat), Shaped (elevBezier p t) (p + t + 1) (p + 1) ∧
      ∀ (u : Rat), a ≤ u ∧ u ≤ b → ∀ (f : List Rat), f.length = p + 1 →
        dot (cdbRow (bezList (p + t) a b) b (p + t + 1) (p + t) u) (matVec (elevBezier p t) f)
          = dot (cdbRow (bezList p a b) b (p + 1) p u) f := by
  intro t
  induction t with
  | zero =>
    intro p
    refine ⟨by simpa [elevBezier] using identity_shaped (p + 1), ?_⟩
    intro u _ f hf
    simp only [elevBezier, Nat.add_zero]
    rw [matVec_identity (p + 1) f hf]
  | succ t ih =>
    intro p
    obtain ⟨sh, hrep⟩ := ih (p + 1)
    have e1 : p + 1 + t = p + (t + 1) := by omega
    have e2 : p + 1 + t + 1 = p + (t + 1) + 1 := by omega
    have s1 := elevBezierOnce_shaped p
    have sh' : Shaped (elevBezier (p + 1) t) (p + (t + 1) + 1) (p + 2) := by rw [← e2]; exact sh
    refine ⟨?_, ?_⟩
    · simp only [elevBezier]
      exact matMul_shaped _ _ _ _ _ sh' s1 (by omega)
    · intro u hu f hf
      simp only [elevBezier]
      rw [matVec_matMul _ _ _ _ _ sh' s1 (by omega) f hf]
      have hl : (matVec (elevBezierOnce p) f).length = p + 1 + 1 := by simp [matVec, elevBezierOnce]
      have := hrep u hu (matVec (elevBezierOnce p) f) hl
      rw [e1] at this
      rw [this]
      exact C06_bezier_elevation_once p a b u hab hu f hf

end NV
