/-
Props/C04.lean — property C04: knot insertion.  Proved here: the resulting knot vector is the sorted
multiset union; rejected requests leave the curve unchanged and are ValueErrors; every row of the
single-insertion (Boehm) matrix is a convex combination (entries in [0,1], at most two non-zero,
summing to one).  That the curve is unchanged as a function is decided per input by the
sound-and-complete oracle of `Props/Oracles.lean` (the Boehm identity for all inputs is not proved).
-/
import NurbsVerif.Props.C15
import NurbsVerif.Proofs.KV
import Mathlib.Algebra.BigOperators.Intervals
import NurbsVerif.Proofs.Boehm

namespace NV
open Finset

/-- **C04 (knots).**  After an accepted `knot_insert(nodes)` the knot vector is the sorted concatenation of the
old vector and the nodes (the sorted multiset union), and the degree is unchanged. -/
theorem C04_knots (c c' : Curve) (nodes : List Rat) (h : c.knotInsert nodes = .ok c') :
    c'.kv.v = isort (c.kv.v ++ nodes) ∧ c'.kv.deg = c.kv.deg := by
  simp only [Curve.knotInsert, bind, Except.bind] at h
  split at h
  · cases h
  · rename_i newk hins
    split at h
    · cases h
    · rename_i hdeg
      split at h
      · cases h
      · rename_i m hm
        have hk : c'.kv = newk := by
          unfold Curve.apply at h
          simp only [bind, Except.bind, pure, Except.pure] at h
          split at h
          · cases h; rfl
          · exact (congrArg Curve.kv (mk?_spec _ _ _ _ h).1)
          · split at h
            · cases h
            · split at h
              · exact (congrArg Curve.kv (mk?_spec _ _ _ _ h).1)
              · split at h
                · cases h
                · exact (congrArg Curve.kv (mk?_spec _ _ _ _ h).1)
        have hv : newk.v = isort (c.kv.v ++ nodes) := by
          simp only [KV.insert] at hins
          split at hins
          · cases hins
          · exact (mk?_ok _ _ hins).2.1
        rw [hk]
        refine ⟨hv, ?_⟩
        simp only [bne_iff_ne, ne_eq, Decidable.not_not] at hdeg
        simpa using hdeg

/-- **C04 (rejection).**  Nodes outside the interval are refused with ValueError; a refused request returns the
error and (the model being a value model, as the real object is observed to do) leaves the curve as it was. -/
theorem C04_outside_rejected (c : Curve) (nodes : List Rat) (x : Rat) (hx : x ∈ nodes)
    (ho : x < c.kv.umin ∨ c.kv.umax < x) : c.knotInsert nodes = .error .value := by
  have : c.kv.validNodes nodes = false := by
    simp only [KV.validNodes, List.all_eq_false]
    refine ⟨x, hx, ?_⟩
    simp only [KV.validNode, Bool.not_eq_true, Bool.not_eq_false', Bool.or_eq_true, decide_eq_true_eq]
    exact ho
  simp [Curve.knotInsert, KV.insert, this, bind, Except.bind]

/-- the interior (blending) rows of the Boehm matrix: `α` at `(r, r)`, `1 − α` at `(r, r−1)` -/
theorem insOnceEntry_blend (U : List Rat) (p : Nat) (node : Rat) (s r c : Nat) (hr : s + 1 ≤ r + p ∧ r ≤ s) :
    insOnceEntry U p node s r c =
      if c = r then (node - nth U r) / (nth U (r + p) - nth U r)
      else if c + 1 = r then 1 - (node - nth U r) / (nth U (r + p) - nth U r) else 0 := by
  simp [insOnceEntry, hr]

/-- **C04 (convex rows).**  With monotone knots and `U[s] ≤ node < U[s+1]`, every entry of the single-insertion
matrix lies in `[0, 1]`. -/
theorem C04_entries_in_unit_interval (U : List Rat) (p : Nat) (node : Rat) (s r c : Nat)
    (hmono : ∀ a b, a ≤ b → b ≤ s + p + 1 → nth U a ≤ nth U b)
    (hlo : nth U s ≤ node) (hhi : node < nth U (s + 1)) :
    0 ≤ insOnceEntry U p node s r c ∧ insOnceEntry U p node s r c ≤ 1 := by
  unfold insOnceEntry
  split
  · rename_i hr
    have h1 : nth U r ≤ node := le_trans (hmono r s hr.2 (by omega)) hlo
    have h2 : node ≤ nth U (r + p) := le_trans (le_of_lt hhi) (hmono (s + 1) (r + p) (by omega) (by omega))
    have hα0 : 0 ≤ (node - nth U r) / (nth U (r + p) - nth U r) := by
      apply div_nonneg <;> linarith
    have hα1 : (node - nth U r) / (nth U (r + p) - nth U r) ≤ 1 := by
      by_cases hd : nth U (r + p) - nth U r = 0
      · rw [hd]; simp
      · have : 0 < nth U (r + p) - nth U r := lt_of_le_of_ne (by linarith) (Ne.symm hd)
        rw [div_le_one this]; linarith
    simp only []
    split
    · exact ⟨hα0, hα1⟩
    · split
      · constructor <;> linarith
      · constructor <;> norm_num
  · split
    · constructor <;> norm_num
    · split
      · constructor <;> norm_num
      · constructor <;> norm_num

theorem sum_ite_eq_range (n r : Nat) (v : Rat) (hr : r < n) :
    ∑ c ∈ range n, (if c = r then v else 0) = v := by
  rw [Finset.sum_ite_eq' (range n) r (fun _ => v)]
  simp [hr]

/-- **C04 (rows sum to one).**  Every row `r ≤ n` of the `(n+1) × n` matrix sums
to one (`n > s`, `p ≤ s`). -/
theorem C04_row_sum_one (U : List Rat) (p : Nat) (node : Rat) (s n r : Nat)
    (hs : s < n) (hps : p ≤ s) (hr : r ≤ n) :
    ∑ c ∈ range n, insOnceEntry U p node s r c = 1 := by
  by_cases hblend : s + 1 ≤ r + p ∧ r ≤ s
  · -- α at (r, r), 1 − α at (r, r − 1)
    have hr1 : 1 ≤ r := by omega
    have e : ∀ c ∈ range n, insOnceEntry U p node s r c
        = (if c = r then (node - nth U r) / (nth U (r + p) - nth U r) else 0)
          + (if c = r - 1 then 1 - (node - nth U r) / (nth U (r + p) - nth U r) else 0) := by
      intro c _
      rw [insOnceEntry_blend U p node s r c hblend]
      by_cases c1 : c = r
      · subst c1
        have h1 : ¬ c = c - 1 := by omega
        rw [if_pos rfl, if_pos rfl, if_neg h1]; ring
      · by_cases c2 : c + 1 = r
        · have h3 : c = r - 1 := by omega
          rw [if_neg c1, if_pos c2, if_neg c1, if_pos h3]; ring
        · have h3 : ¬ c = r - 1 := by omega
          rw [if_neg c1, if_neg c2, if_neg c1, if_neg h3]; ring
    rw [sum_congr rfl e, sum_add_distrib, sum_ite_eq_range n r _ (by omega), sum_ite_eq_range n (r - 1) _ (by omega)]
    ring
  · by_cases hlow : r + p ≤ s
    · -- identity row: 1 at (r, r)
      have e : ∀ c ∈ range n, insOnceEntry U p node s r c = if c = r then 1 else 0 := by
        intro c _
        unfold insOnceEntry
        rw [if_neg hblend]
        by_cases c1 : c = r
        · simp [c1, hlow]
        · have : ¬ (c + 1 = r ∧ s ≤ c) := by omega
          simp [c1, this]
      rw [sum_congr rfl e, sum_ite_eq_range n r 1 (by omega)]
    · -- shifted row: 1 at (r, r − 1), r ≥ s + 1
      have hr1 : s + 1 ≤ r := by omega
      have e : ∀ c ∈ range n, insOnceEntry U p node s r c = if c = r - 1 then 1 else 0 := by
        intro c _
        unfold insOnceEntry
        rw [if_neg hblend]
        by_cases c1 : c = r - 1
        · have h1 : ¬ (c = r ∧ r + p ≤ s) := by omega
          have h2 : c + 1 = r ∧ s ≤ c := by omega
          simp [c1, h1, h2]
          omega
        · have h1 : ¬ (c = r ∧ r + p ≤ s) := by omega
          have h2 : ¬ (c + 1 = r ∧ s ≤ c) := by omega
          simp [c1, h1, h2]
      rw [sum_congr rfl e, sum_ite_eq_range n (r - 1) 1 (by omega)]

theorem sum_ite_mul_range (n r : Nat) (v : Rat) (P : Nat → Rat) (hr : r < n) :
    ∑ c ∈ range n, (if c = r then v else 0) * P c = v * P r := by
  have : ∀ c ∈ range n, (if c = r then v else 0) * P c = if c = r then v * P c else 0 := by
    intro c _; split <;> simp
  rw [sum_congr rfl this, Finset.sum_ite_eq' (range n) r (fun c => v * P c)]
  simp [hr]

/-- **the rows of the single-insertion matrix are the Boehm map**: row `r` of `one_knot_insert_once` applied to the
control values `P` is `α_r P_r + (1 − α_r) P_{r−1}` with the degree-`p` Boehm coefficient `α_r` -/
theorem insOnce_row_is_boehm (U : List Rat) (p : Nat) (node : Rat) (s n r : Nat) (P : Nat → Rat)
    (hs : s < n) (hps : p ≤ s) (hr : r ≤ n) :
    ∑ c ∈ range n, insOnceEntry U p node s r c * P c = boehm (nth U) s node p P r := by
  unfold boehm alpha
  by_cases hblend : s + 1 ≤ r + p ∧ r ≤ s
  · have hr1 : 1 ≤ r := by omega
    have e1 : ¬ r + p ≤ s := by omega
    have e : ∀ c ∈ range n, insOnceEntry U p node s r c * P c
        = (if c = r then (node - nth U r) / (nth U (r + p) - nth U r) else 0) * P c
          + (if c = r - 1 then 1 - (node - nth U r) / (nth U (r + p) - nth U r) else 0) * P c := by
      intro c _
      rw [insOnceEntry_blend U p node s r c hblend]
      by_cases c1 : c = r
      · subst c1
        have h1 : ¬ c = c - 1 := by omega
        rw [if_pos rfl, if_pos rfl, if_neg h1]; ring
      · by_cases c2 : c + 1 = r
        · have h3 : c = r - 1 := by omega
          rw [if_neg c1, if_pos c2, if_neg c1, if_pos h3]; ring
        · have h3 : ¬ c = r - 1 := by omega
          rw [if_neg c1, if_neg c2, if_neg c1, if_neg h3]; ring
    rw [sum_congr rfl e, sum_add_distrib, sum_ite_mul_range n r _ P (by omega),
      sum_ite_mul_range n (r - 1) _ P (by omega)]
    have hp : prevP P r = P (r - 1) := by
      have : r ≠ 0 := by omega
      simp [prevP, this]
    simp only [e1, hblend.2, if_true, if_false, hp]
  · by_cases hlow : r + p ≤ s
    · have e : ∀ c ∈ range n, insOnceEntry U p node s r c * P c = (if c = r then 1 else 0) * P c := by
        intro c _
        unfold insOnceEntry
        rw [if_neg hblend]
        by_cases c1 : c = r
        · simp [c1, hlow]
        · have : ¬ (c + 1 = r ∧ s ≤ c) := by omega
          simp [c1, this]
      rw [sum_congr rfl e, sum_ite_mul_range n r 1 P (by omega)]
      simp [hlow]
    · have hr1 : s + 1 ≤ r := by omega
      have e : ∀ c ∈ range n, insOnceEntry U p node s r c * P c = (if c = r - 1 then 1 else 0) * P c := by
        intro c _
        unfold insOnceEntry
        rw [if_neg hblend]
        by_cases c1 : c = r - 1
        · have h1 : ¬ (c = r ∧ r + p ≤ s) := by omega
          have h2 : c + 1 = r ∧ s ≤ c := by omega
          simp [c1, h1, h2]
          omega
        · have h1 : ¬ (c = r ∧ r + p ≤ s) := by omega
          have h2 : ¬ (c + 1 = r ∧ s ≤ c) := by omega
          simp [c1, h1, h2]
      rw [sum_congr rfl e, sum_ite_mul_range n (r - 1) 1 P (by omega)]
      have e2 : ¬ r ≤ s := by omega
      have hp : prevP P r = P (r - 1) := by
        have : r ≠ 0 := by omega
        simp [prevP, this]
      simp [hlow, e2, hp]

/-- **C04 (Boehm: insertion never changes the curve).**  For *every* knot list that is monotone up to its last index,
every degree `p`, every node `x` with `U[s] ≤ x < U[s+1]`, every coefficient sequence `P` and every parameter `u`:
the value `Σ_i P_i N_{i,p}(u)` over the old knots, taken on the old span, equals the value over the new knots
(`x` inserted behind position `s`) with the coefficients `M·P` of the single-insertion matrix, on every non-empty span
`sh` of the new knots — for all multiplicity patterns (zero denominators are covered by the 0/0 := 0 convention). -/
theorem C04_boehm_preserves (U : List Rat) (B p s n : Nat) (x : Rat) (sh : Nat) (u : Rat) (P : Nat → Rat)
    (hmono : MonoUpTo (nth U) B) (hsB : s + 1 ≤ B) (hlo : nth U s ≤ x) (hhi : x < nth U (s + 1))
    (hne : insKnots (nth U) s x sh < insKnots (nth U) s x (sh + 1))
    (hp : p ≤ oldSpan s sh) (hB1 : oldSpan s sh + p + 1 ≤ B) (hB2 : sh + p ≤ B)
    (hsn : s < n) (hps : p ≤ s) (hshn : sh ≤ n) :
    spanSum (nth U) (oldSpan s sh) p u P
      = spanSum (insKnots (nth U) s x) sh p u
          (fun r => ∑ c ∈ range n, insOnceEntry U p x s r c * P c) := by
  rw [boehm_identity (nth U) B s x ⟨hmono, hsB, hlo, hhi⟩ sh u hne p hp hB1 hB2 P]
  apply spanSum_congr
  intro r _ hr2
  exact (insOnce_row_is_boehm U p x s n r P hsn hps (by omega)).symm

end NV
