/-
Props/C15.lean — property C15: curves stay consistent; failed operations are atomic.
The aliasing half of the property (operands untouched, copies independent) is a statement about
python objects; it is observed on the real objects by the harness.  In the value model a
"non-mutating operation" cannot modify anything by construction.
-/
import NurbsVerif.Model.Calc

namespace NV

/-- `len(ctrlpoints) = npts = len(knotvector) − degree − 1` and `len(weights) = npts` when present -/
def Consistent (c : Curve) : Prop :=
  (∀ pts, c.P = some pts → pts.length = c.kv.npts) ∧ (∀ ws, c.W = some ws → ws.length = c.kv.npts)

theorem weightsCheck_length (k : KV) (ws : List Rat) (u : Unit) (h : weightsCheck k ws = .ok u) : ws.length = k.npts := by
  unfold weightsCheck at h
  split at h
  · simp at h
  · rename_i hne; simpa using hne

/-- whatever the validating constructor returns is the requested data, and it is consistent -/
theorem mk?_spec (k : KV) (P : Option (List Vec)) (W : Option (List Rat)) (c : Curve)
    (h : Curve.mk? k P W = .ok c) : c = ⟨k, P, W⟩ ∧ Consistent c := by
  have hW : ∀ (P : Option (List Vec)), (∀ pts, P = some pts → pts.length = k.npts) →
      (match W with
        | none => (Except.ok ⟨k, P, W⟩ : Except Err Curve)
        | some ws => match weightsCheck k ws with
          | .ok _ => .ok ⟨k, P, W⟩
          | .error e => .error e) = .ok c → c = ⟨k, P, W⟩ ∧ Consistent c := by
    intro P hP h
    cases W with
    | none =>
      simp only [Except.ok.injEq] at h
      subst h
      exact ⟨rfl, fun pts hp => hP pts hp, by intro ws hw; cases hw⟩
    | some ws =>
      simp only at h
      cases hc : weightsCheck k ws with
      | error e => simp [hc] at h
      | ok u =>
        simp only [hc, Except.ok.injEq] at h
        subst h
        refine ⟨rfl, fun pts hp => hP pts hp, ?_⟩
        intro ws' hw
        simp only [Option.some.injEq] at hw
        subst hw
        exact weightsCheck_length k ws u hc
  unfold Curve.mk? at h
  cases P with
  | none =>
    simp only [Bool.false_eq_true, if_false] at h
    exact hW none (by intro pts hp; cases hp) h
  | some pts =>
    simp only at h
    by_cases hl : (pts.length != k.npts) = true
    · simp [hl] at h
    · simp only [hl, Bool.false_eq_true, if_false] at h
      exact hW (some pts) (by intro p hp; cases hp; simpa using hl) h

theorem mk?_consistent (k : KV) (P : Option (List Vec)) (W : Option (List Rat)) (c : Curve)
    (h : Curve.mk? k P W = .ok c) : Consistent c := (mk?_spec k P W c h).2

/-! ### every mutator keeps the curve consistent -/

theorem apply_consistent (c : Curve) (newk : KV) (m : Mat) (c' : Curve) (h : c.apply newk m = .ok c') :
    Consistent c' := by
  unfold Curve.apply at h
  simp only [bind, Except.bind, pure, Except.pure] at h
  split at h
  · cases h
    rename_i hP hW
    exact ⟨(by intro pts hp; simp only [hP] at hp; cases hp), (by intro ws hw; simp only [hW] at hw; cases hw)⟩
  · exact mk?_consistent _ _ _ _ h
  · split at h
    · cases h
    · split at h
      · exact mk?_consistent _ _ _ _ h
      · split at h
        · cases h
        · exact mk?_consistent _ _ _ _ h

theorem update_consistent (c : Curve) (hc : Consistent c) (newk : KV) (tol : Option Rat) (nodes : Option (List Rat))
    (c' : Curve) (h : c.update newk tol nodes = .ok c') : Consistent c' := by
  unfold Curve.update at h
  simp only [bind, Except.bind, pure, Except.pure] at h
  split at h
  · cases h; exact hc
  · split at h
    · split at h
      · cases h
        rename_i hP _ hW
        exact ⟨(by intro pts hp; simp only [hP] at hp; cases hp), (by intro ws hw; simp only [hW] at hw; cases hw)⟩
      · split at h
        · cases h
        · split at h
          · cases h
          · exact mk?_consistent _ _ _ _ h
    · split at h
      · cases h
      · split at h
        · split at h
          · cases h
          · exact mk?_consistent _ _ _ _ h
        · split at h
          · cases h
          · split at h
            · cases h
            · split at h
              · cases h
              · exact mk?_consistent _ _ _ _ h

/-- the public mutators of `Curve` as operations of a state machine -/
inductive CurveOp where
  | knotInsert (nodes : List Rat)
  | knotRemove (nodes : List Rat) (tol : Option Rat)
  | degreeIncrease (t : Nat)
  | degreeDecrease (t : Nat) (tol : Option Rat)
  | setPoints (pts : List Vec)
  | setWeights (ws : List Rat)
  | fitPoints (pts : List Vec) (nodes : Option (List Rat))

def curveStep (c : Curve) : CurveOp → Except Err Curve
  | .knotInsert ns => c.knotInsert ns
  | .knotRemove ns tol => c.knotRemove ns tol
  | .degreeIncrease t => c.degreeIncrease t
  | .degreeDecrease t tol => c.degreeDecrease t tol
  | .setPoints pts => Curve.mk? c.kv (some pts) c.W
  | .setWeights ws => Curve.mk? c.kv c.P (some ws)
  | .fitPoints pts nodes => c.fitPoints pts nodes

/-- an operation that raises leaves knot vector, control points and weights exactly as they were -/
def curveApply (c : Curve) (op : CurveOp) : Curve :=
  match curveStep c op with
  | .ok c' => c'
  | .error _ => c

def curveRun (c : Curve) (ops : List CurveOp) : Curve := ops.foldl curveApply c

theorem C15_step_consistent (c : Curve) (hc : Consistent c) (op : CurveOp) (c' : Curve)
    (h : curveStep c op = .ok c') : Consistent c' := by
  cases op with
  | knotInsert ns =>
    simp only [curveStep, Curve.knotInsert, bind, Except.bind] at h
    split at h
    · cases h
    · split at h
      · cases h
      · split at h
        · cases h
        · exact apply_consistent _ _ _ _ h
  | knotRemove ns tol =>
    simp only [curveStep, Curve.knotRemove, bind, Except.bind] at h
    split at h
    · cases h
    · exact update_consistent c hc _ _ _ _ h
  | degreeIncrease t =>
    simp only [curveStep, Curve.degreeIncrease, bind, Except.bind] at h
    split at h
    · cases h
    · split at h
      · cases h
      · split at h
        · cases h
        · exact apply_consistent _ _ _ _ h
  | degreeDecrease t tol =>
    simp only [curveStep, Curve.degreeDecrease, bind, Except.bind] at h
    split at h
    · cases h
    · split at h
      · cases h
      · split at h
        · cases h
        · exact update_consistent c hc _ _ _ _ h
  | setPoints pts => exact mk?_consistent _ _ _ _ (by simpa [curveStep] using h)
  | setWeights ws => exact mk?_consistent _ _ _ _ (by simpa [curveStep] using h)
  | fitPoints pts nodes =>
    simp only [curveStep, Curve.fitPoints, bind, Except.bind] at h
    repeat' (split at h)
    all_goals first
      | (cases h; done)
      | exact mk?_consistent _ _ _ _ h

/-- **C15 (consistency).**  After any sequence of operations, raising or not, `len(ctrlpoints) = npts =
len(knotvector) − degree − 1` and `len(weights) = npts` when present. -/
theorem C15_reachable_consistent (ops : List CurveOp) : ∀ c, Consistent c → Consistent (curveRun c ops) := by
  induction ops with
  | nil => intro c hc; exact hc
  | cons op ops ih =>
    intro c hc
    simp only [curveRun, List.foldl_cons]
    apply ih
    unfold curveApply
    cases hs : curveStep c op with
    | ok c' => exact C15_step_consistent c hc op c' hs
    | error e => exact hc

/-- **C15 (atomic failure).**  An operation that raises leaves the curve exactly as it was. -/
theorem C15_failed_unchanged (c : Curve) (op : CurveOp) (e : Err) (h : curveStep c op = .error e) :
    curveApply c op = c := by
  simp [curveApply, h]

/-- a curve built by the constructor is consistent (start of every history) -/
theorem C15_constructor_consistent (k : KV) (P : Option (List Vec)) (W : Option (List Rat)) (c : Curve)
    (h : Curve.mk? k P W = .ok c) : Consistent c := mk?_consistent k P W c h

/-- the `clean` loops only iterate accepted removals / reductions: they keep consistency too -/
theorem removeWhilePossible_consistent (f : Nat) : ∀ (c : Curve), Consistent c → ∀ knot tol,
    Consistent (Curve.removeWhilePossible f c knot tol) := by
  induction f with
  | zero => intro c hc _ _; exact hc
  | succ f ih =>
    intro c hc knot tol
    simp only [Curve.removeWhilePossible]
    split
    · rename_i c' h
      apply ih
      exact C15_step_consistent c hc (.knotRemove [knot] tol) c' h
    · exact hc

end NV
