/-
Props/C09Bezier.lean — property C09 for polynomial Bézier curves: `Derivate.nonrational_bezier` (differences of the
control points on `vector[1:-1]`, followed by `clean()`) builds, before the cleaning, exactly the curve that the spline
branch builds, so `C09_deriv_spline` applies to it: it evaluates to the derivative of the curve.
-/
import NurbsVerif.Props.C09Curve
import NurbsVerif.Proofs.SplitKV

namespace NV
open Polynomial

/-- a Bézier knot vector is `a^(p+1) b^(p+1)` -/
theorem bezier_vector (k : KV) (hwf : WF k.v k.deg) (hbez : k.deg + 1 = k.npts) :
    k.v = List.replicate (k.deg + 1) (nth k.v 0) ++ List.replicate (k.deg + 1) (k.v.getLastD 0) := by
  obtain ⟨hself, _⟩ := wf_self_piece k.v k.deg hwf
  have hlen : k.v.length = 2 * (k.deg + 1) := by
    have := hwf.npts_gt; unfold KV.npts at hbez; omega
  have hmid : (k.v.filter fun x => decide (nth k.v 0 < x) && decide (x < k.v.getLastD 0)).length = 0 := by
    have := congrArg List.length hself
    simp only [List.length_append, List.length_replicate] at this
    omega
  rw [List.length_eq_zero_iff] at hmid
  rw [hmid, List.append_nil] at hself
  exact hself

theorem removeFirst_head (x : Rat) (l : List Rat) : removeFirst x (x :: l) = some l := by
  simp [removeFirst]

theorem removeFirst_skip (a b : Rat) (hab : a ≠ b) : ∀ (n : Nat) (l : List Rat),
    removeFirst b (List.replicate n a ++ b :: l) = some (List.replicate n a ++ l)
  | 0, l => by simp [removeFirst]
  | n + 1, l => by
    have : (a == b) = false := by simpa using hab
    simp only [List.replicate_succ, List.cons_append, removeFirst, this, Bool.false_eq_true, if_false,
      removeFirst_skip a b hab n l, Option.map_some]

end NV

namespace NV
open Polynomial

/-- the two constructions of the Bézier derivative's control points agree -/
theorem bezier_deriv_points (k : KV) (pts : List Vec) (d p' : Nat) (hp : k.deg = p' + 1)
    (hlen : pts.length = k.npts) (hdim : ∀ q ∈ pts, q.length = d) (hbez : k.deg + 1 = k.npts)
    (hv : k.v = List.replicate (k.deg + 1) (nth k.v 0) ++ List.replicate (k.deg + 1) (k.v.getLastD 0)) :
    matPts (derivSplineMat k) pts
      = (List.range k.deg).map fun i =>
          vscale (((k.deg : Nat) : Rat) / (k.v.getLastD 0 - nth k.v 0))
            (vadd (pts.getD (i + 1) []) (vscale (-1) (pts.getD i []))) := by
  have hn0 : 0 < k.npts := by omega
  have sM := derivSplineMat_shaped k
  apply List.ext_getElem
  · simp [matPts, sM.1]; omega
  · intro i h1 h2
    have hi : i < k.deg := by simpa using h2
    have hi1 : i + 1 < k.npts := by omega
    have hpi : i < pts.length := by omega
    have hpi1 : i + 1 < pts.length := by omega
    have dq := matPts_dims (derivSplineMat k) pts d _ _ sM hlen hn0 hdim
    have d1 : (pts.getD (i + 1) []).length = d := by
      rw [List.getD_eq_getElem?_getD, List.getElem?_eq_getElem hpi1]; exact hdim _ (List.getElem_mem hpi1)
    have d0 : (pts.getD i []).length = d := by
      rw [List.getD_eq_getElem?_getD, List.getElem?_eq_getElem hpi]; exact hdim _ (List.getElem_mem hpi)
    have d0' : (vscale (-1) (pts.getD i [])).length = d := by unfold vscale; rw [List.length_map]; exact d0
    have dsum : (vadd (pts.getD (i + 1) []) (vscale (-1) (pts.getD i []))).length = d := vadd_length _ _ d d1 d0'
    apply vec_ext_getD
    · rw [dq _ (List.getElem_mem h1)]
      simp only [List.getElem_map, List.getElem_range]
      unfold vscale at dsum ⊢
      rw [List.length_map]
      exact dsum.symm
    · intro j
      -- left: row i of the difference matrix applied to coordinate j
      have e1 : ((matPts (derivSplineMat k) pts)[i]).getD j 0 = (coordCol (matPts (derivSplineMat k) pts) j).getD i 0 := by
        simp [coordCol, List.getD_eq_getElem?_getD, h1]
      rw [e1, coordCol_matPts (derivSplineMat k) pts d _ _ sM hlen hn0 hdim j,
        derivSplineMat_row k p' hp (coordCol pts j) (by simp [coordCol, hlen]) i hi1]
      simp only [List.getElem_map, List.getElem_range]
      rw [vscale_getD, vadd_getD _ _ d d1 d0', vscale_getD]
      unfold derivCoef Acoef
      have hne : ¬ i + 1 = 0 := by omega
      simp only [hne, if_false, Nat.add_sub_cancel]
      -- the knots: index i+1 ≤ p is `a`, index i+1+p'+1 ≥ p+1 is `b`
      have ta : nth k.v (i + 1) = nth k.v 0 := by
        conv_lhs => rw [hv]
        rw [nth_append_left _ _ _ (by simp; omega), nth_replicate _ _ _ (by omega)]
      have tb : nth k.v (i + 1 + p' + 1) = k.v.getLastD 0 := by
        conv_lhs => rw [hv]
        rw [nth_append_right _ _ _ (by simp; omega), nth_replicate _ _ _ (by simp; omega)]
      rw [ta, tb]
      have c0 : (coordCol pts j).getD (i + 1) 0 = (pts.getD (i + 1) []).getD j 0 := by
        simp [coordCol, List.getD_eq_getElem?_getD, hpi1]
      have c1 : (coordCol pts j).getD i 0 = (pts.getD i []).getD j 0 := by
        simp [coordCol, List.getD_eq_getElem?_getD, hpi]
      rw [c0, c1, hp]
      push_cast
      ring

end NV

namespace NV
open Polynomial

/-- a Bézier vector has no interior knot: it is continuous in the sense of `Proofs/DerivList` -/
theorem bezier_continuous (k : KV) (hwf : WF k.v k.deg) (hbez : k.deg + 1 = k.npts) : Continuous k := by
  intro x hx h1 h2
  exfalso
  have hv := bezier_vector k hwf hbez
  have hfirst : nth k.v 0 = k.umin := (umin_eq_first k.v k.deg hwf).symm
  have hlast : k.v.getLastD 0 = k.umax := by
    have := umax_eq_last k.v k.deg hwf; unfold KV.umax KV.npts; exact this.symm
  rw [hv, List.mem_append] at hx
  rcases hx with hx | hx
  · exact h1 (by rw [List.eq_of_mem_replicate hx, hfirst])
  · exact h2 (by rw [List.eq_of_mem_replicate hx, hlast])

/-- **C09 for polynomial Bézier curves (before the final `clean()`):** `Derivate.nonrational_bezier` returns the
cleaning of exactly the curve the spline branch builds. -/
theorem C09_bezier_preclean (c D : Curve) (pts : List Vec) (d p' : Nat) (hp : c.kv.deg = p' + 1)
    (hP : c.P = some pts) (hlen : pts.length = c.kv.npts) (hdim : ∀ q ∈ pts, q.length = d)
    (hwf : WF c.kv.v c.kv.deg) (hsep : Separated c.kv.v) (hbez : c.kv.deg + 1 = c.kv.npts)
    (h : c.derivBezier = .ok D) :
    ∃ d0, D = d0.clean tol9 ∧ c.derivSpline = .ok d0 := by
  have g : GoodKV c.kv := by
    have := goodKV_of_WF c.kv.v c.kv.deg hwf hsep
    cases hk : c.kv; rw [hk] at this; exact this
  have hc := bezier_continuous c.kv hwf hbez
  have hv := bezier_vector c.kv hwf hbez
  have hfirst : nth c.kv.v 0 = c.kv.umin := (umin_eq_first c.kv.v c.kv.deg hwf).symm
  have hlast : c.kv.v.getLastD 0 = c.kv.umax := by
    have := umax_eq_last c.kv.v c.kv.deg hwf; unfold KV.umax KV.npts; exact this.symm
  have hab : nth c.kv.v 0 ≠ c.kv.v.getLastD 0 := ne_of_lt (wf_first_lt_last c.kv.v c.kv.deg hwf)
  -- the inner list
  have hinner : (c.kv.v.drop 1).dropLast
      = List.replicate c.kv.deg (nth c.kv.v 0) ++ List.replicate c.kv.deg (c.kv.v.getLastD 0) := by
    conv_lhs => rw [hv]
    rw [List.replicate_succ, List.cons_append, List.drop_one, List.tail_cons,
      List.replicate_succ' (n := c.kv.deg) (a := c.kv.v.getLastD 0), ← List.append_assoc, List.dropLast_concat]
  have hrem : removeAll [c.kv.umin, c.kv.umax] c.kv.v = some ((c.kv.v.drop 1).dropLast) := by
    rw [hinner, ← hfirst, ← hlast]
    obtain ⟨a, ha⟩ : ∃ a, nth c.kv.v 0 = a := ⟨_, rfl⟩
    obtain ⟨b, hb⟩ : ∃ b, c.kv.v.getLastD 0 = b := ⟨_, rfl⟩
    rw [ha, hb] at hv hab ⊢
    rw [hv]
    simp only [removeAll, List.foldl_cons, List.foldl_nil, Option.bind_some]
    rw [List.replicate_succ, List.cons_append, removeFirst_head, Option.bind_some,
      List.replicate_succ (n := c.kv.deg) (a := b), removeFirst_skip _ _ hab]
  -- unfold the Bézier branch
  unfold Curve.derivBezier at h
  simp only [bind, Except.bind, pure, Except.pure, hP] at h
  split at h
  · cases h
  · rename_i newk hnk
    split at h
    · cases h
    · rename_i d0 hd0
      simp only [Except.ok.injEq] at h
      refine ⟨d0, h.symm, ?_⟩
      unfold Curve.derivSpline
      simp only [bind, Except.bind, pure, Except.pure, hP]
      rw [full_knots c.kv g hwf hc]
      have hremove : c.kv.remove [c.kv.umin, c.kv.umax] = .ok newk := by
        unfold KV.remove; rw [hrem]; exact hnk
      rw [hremove]
      simp only []
      have sM := derivSplineMat_shaped c.kv
      have hq : ((matPts (derivSplineMat c.kv) pts).zipIdx.filter
            (fun (x : Vec × Nat) => nth c.kv.v (x.2 + 1 + c.kv.deg) != nth c.kv.v (x.2 + 1))).map (·.1)
          = matPts (derivSplineMat c.kv) pts := by
        apply zipIdx_filter_all _ (fun i => nth c.kv.v (i + 1 + c.kv.deg) != nth c.kv.v (i + 1))
        intro i hi
        simp only [matPts, List.length_map, sM.1] at hi
        simpa using no_null_rows c.kv g hwf hc (by omega) i (by omega)
      rw [hq, bezier_deriv_points c.kv pts d p' hp hlen hdim hbez hv]
      exact hd0

end NV

namespace NV
open Polynomial

/-- **C09, polynomial Bézier curves of degree ≥ 1:** the curve that `Derivate` cleans at the end evaluates, at every
parameter of the (single) span, to the derivative of the curve's polynomial. -/
theorem C09_bezier_derivative (c D : Curve) (pts : List Vec) (d p' : Nat) (hp : c.kv.deg = p' + 1)
    (hP : c.P = some pts) (hW : c.W = none) (hlen : pts.length = c.kv.npts) (hdim : ∀ q ∈ pts, q.length = d)
    (hwf : WF c.kv.v c.kv.deg) (hsep : Separated c.kv.v) (hbez : c.kv.deg + 1 = c.kv.npts)
    (h : c.derivBezier = .ok D) :
    ∃ d0 : Curve, D = d0.clean tol9 ∧ ∀ (u : Rat) (j : Nat), InSpan (nth c.kv.v) c.kv.umax c.kv.deg u →
      ∃ vC vD : Vec, c.eval u = .ok vC ∧ d0.eval u = .ok vD
        ∧ vC.getD j 0 = (spanPoly (nth c.kv.v) c.kv.deg c.kv.deg (fun i => (coordCol pts j).getD i 0)).eval u
        ∧ vD.getD j 0
            = (derivative (spanPoly (nth c.kv.v) c.kv.deg c.kv.deg (fun i => (coordCol pts j).getD i 0))).eval u := by
  obtain ⟨d0, hD, hs⟩ := C09_bezier_preclean c D pts d p' hp hP hlen hdim hwf hsep hbez h
  refine ⟨d0, hD, ?_⟩
  intro u j hin
  exact C09_deriv_spline c d0 pts d p' hp hP hW hlen hdim hwf hsep (bezier_continuous c.kv hwf hbez) hs
    c.kv.deg (le_refl _) (by omega) u hin j

end NV
