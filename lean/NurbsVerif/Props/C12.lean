/-
Props/C12.lean — property C12: fit_points solves the discrete least-squares problem: the residual
is orthogonal to every column of the collocation matrix; the square case interpolates.
-/
import NurbsVerif.Proofs.Matrix

namespace NV

theorem invertChecked_spec (m inv : Mat) (h : invertChecked? m = some inv) :
    matMul m inv = identity m.length := by
  unfold invertChecked? at h
  split at h
  · rename_i inv' _
    split at h
    · rename_i hc
      simp only [Option.some.injEq] at h
      subst h
      simpa using hc
    · simp at h
  · simp at h

/-- what `Linalg.lstsq` returns for a tall collocation matrix: `(BᵀB)⁻¹Bᵀ` with a *checked* inverse -/
theorem lstsq_tall_spec (B M : Mat) (hrows : (B.headD []).length < B.length) (h : lstsq? B = some M) :
    ∃ inv, matMul (matMul (transpose B) B) inv = identity (matMul (transpose B) B).length
      ∧ M = matMul inv (transpose B) := by
  unfold lstsq? at h
  simp only [] at h
  have h1 : ¬ B.length < (B.headD []).length := by omega
  have h2 : ¬ B.length = (B.headD []).length := by omega
  simp only [h1, h2, if_false, solve?, Option.map_eq_some_iff] at h
  obtain ⟨inv, hinv, rfl⟩ := h
  exact ⟨inv, invertChecked_spec _ _ hinv, rfl⟩

/-- **C12 (normal equations).**  For a collocation matrix `B` (`r` nodes × `n` control points, `r > n ≥ 1`), the matrix
`M` returned by the solver and every list of target points `Z`, the control points `Q = M Z` satisfy
`Bᵀ (B Q) = Bᵀ Z`: the residual vector `B Q − Z` is orthogonal to every column of `B`. -/
theorem C12_normal_equations (B M Z : Mat) (r n d : Nat) (hB : Shaped B r n) (hn : 0 < n) (hrn : n < r)
    (hM : lstsq? B = some M) (hinvShape : ∀ inv, M = matMul inv (transpose B) →
      matMul (matMul (transpose B) B) inv = identity n → Shaped inv n n) :
    (toM r n B).transpose * (toM r n B * (toM n r M * toM r d Z)) = (toM r n B).transpose * toM r d Z := by
  have hr : 0 < r := by omega
  have hhead : (B.headD []).length = n := by
    cases hB' : B with
    | nil => rw [hB'] at hB; simp [Shaped] at hB; omega
    | cons r0 rest => rw [hB'] at hB; simpa using hB.2 r0 (by simp)
  obtain ⟨inv, hchk, rfl⟩ := lstsq_tall_spec B M (by rw [hhead, hB.1]; exact hrn) hM
  have hG : Shaped (matMul (transpose B) B) n n :=
    matMul_shaped _ _ n r n (transpose_shaped B r n hB hr) hB hr
  rw [hG.1] at hchk
  exact normal_equations B inv Z r n d hB hr hn (hinvShape inv rfl hchk) hchk

/-- **C12 (square case).**  With as many nodes as control points the solver returns a checked inverse of `B`, so
`B (M Z) = Z`: the fitted curve passes through every given point. -/
theorem C12_square_interpolates (B M Z : Mat) (n d : Nat) (hB : Shaped B n n) (hn : 0 < n)
    (hMshape : Shaped M n n) (hM : lstsq? B = some M) :
    toM n n B * (toM n n M * toM n d Z) = toM n d Z := by
  have hhead : (B.headD []).length = n := by
    cases hB' : B with
    | nil => rw [hB'] at hB; simp [Shaped] at hB; omega
    | cons r0 rest => rw [hB'] at hB; simpa using hB.2 r0 (by simp)
  unfold lstsq? at hM
  simp only [] at hM
  have h1 : ¬ B.length < (B.headD []).length := by rw [hhead, hB.1]; omega
  have h2 : B.length = (B.headD []).length := by rw [hhead, hB.1]
  simp only [h2, if_true, lt_irrefl, if_false] at hM
  have hchk := invertChecked_spec B M hM
  rw [hB.1] at hchk
  have := toM_matMul B M n n n hB hMshape hn
  rw [hchk, toM_identity] at this
  rw [← Matrix.mul_assoc, ← this, Matrix.one_mul]

end NV
