/-
Props/C17.lean — property C17: KnotVector union / intersection.
-/
import NurbsVerif.Proofs.KV

namespace NV

theorem cnt_replicate (n : Nat) (a x : Rat) : cnt (List.replicate n a) x = if a = x then n else 0 := by
  induction n with
  | zero => simp [cnt]
  | succ n ih =>
    simp only [List.replicate_succ, cnt, List.filter_cons] at *
    by_cases h : a = x <;> simp [h] at * <;> omega

/-- multiplicity in `k₀^m₀ k₁^m₁ …` for distinct `kᵢ` -/
theorem cnt_replicateKnots (ks : List Rat) (ms : List Nat) (hnd : ks.Nodup) (hlen : ks.length = ms.length)
    (i : Nat) (hi : i < ks.length) :
    cnt (KV.replicateKnots ks ms) (ks[i]) = ms[i]'(by omega) := by
  induction ks generalizing ms i with
  | nil => simp at hi
  | cons k ks ih =>
    cases ms with
    | nil => simp at hlen
    | cons m ms =>
      simp only [KV.replicateKnots, cnt_append, cnt_replicate]
      have hnd' := List.nodup_cons.mp hnd
      cases i with
      | zero =>
        simp only [List.getElem_cons_zero, if_true]
        have : cnt (KV.replicateKnots ks ms) k = 0 := by
          apply cnt_eq_zero_of_forall_ne
          intro y hy
          have hyks : y ∈ ks := by
            clear ih hi hnd hlen
            induction ks generalizing ms with
            | nil => simp [KV.replicateKnots] at hy
            | cons k' ks' ih' =>
              cases ms with
              | nil => simp [KV.replicateKnots] at hy
              | cons m' ms' =>
                simp only [KV.replicateKnots, List.mem_append] at hy
                rcases hy with hy | hy
                · rw [List.eq_of_mem_replicate hy]; simp
                · exact List.mem_cons_of_mem _ (ih' ms' (List.nodup_cons.mp hnd'.2 |>.2 |> fun _ => ⟨fun h => hnd'.1 (List.mem_cons_of_mem _ h), (List.nodup_cons.mp hnd'.2).2⟩) hy)
          intro e; subst e; exact hnd'.1 hyks
        omega
      | succ i =>
        simp only [List.getElem_cons_succ]
        have hne : k ≠ ks[i]'(by simpa using hi) := by
          intro e; exact hnd'.1 (e ▸ List.getElem_mem _)
        simp only [hne, if_false, zero_add]
        exact ih ms hnd'.2 (by simpa using hlen) i (by simpa using hi)

/-- **C17 (different intervals).**  Union and intersection of vectors on different intervals raise ValueError. -/
theorem C17_different_intervals (a b : KV) (h : a.limits ≠ b.limits) :
    a.union b = .error .value ∧ a.inter b = .error .value := by
  have : (a.limits != b.limits) = true := by simpa using h
  simp [KV.union, KV.inter, this]

/-- **C17 (result is a valid vector).**  Whatever `|` or `&` return passed the validating constructor. -/
theorem C17_union_valid (a b k : KV) (h : a.union b = .ok k) : KVInv k := by
  simp only [KV.union] at h
  split at h
  · simp at h
  · split at h
    · simp at h
    · exact inv_of_mk _ _ h

theorem C17_inter_valid (a b k : KV) (h : a.inter b = .ok k) : KVInv k := by
  simp only [KV.inter] at h
  split at h
  · simp at h
  · exact inv_of_mk _ _ h

/-- **C17 (union multiplicities).**  In `U | V` every knot of the merged (distinct) knot list has multiplicity
`max(m_U + r − p, m_V + r − q)` with `r = max(p, q)` (a vector in which the knot does not occur contributes 0). -/
theorem C17_union_mult (a b k : KV) (h : a.union b = .ok k) (i : Nat) (hi : i < (getUnique (a.knots ++ b.knots)).length) :
    cnt k.v ((getUnique (a.knots ++ b.knots))[i]) =
      max (if a.v.any (· == (getUnique (a.knots ++ b.knots))[i]) then
              a.multSingle ((getUnique (a.knots ++ b.knots))[i]) + max a.deg b.deg - a.deg else 0)
          (if b.v.any (· == (getUnique (a.knots ++ b.knots))[i]) then
              b.multSingle ((getUnique (a.knots ++ b.knots))[i]) + max a.deg b.deg - b.deg else 0) := by
  simp only [KV.union] at h
  split at h
  · simp at h
  · split at h
    · simp at h
    · obtain ⟨_, hv, _⟩ := mk?_ok _ _ h
      rw [hv, cnt_isort]
      rw [cnt_replicateKnots _ _ (getUnique_nodup _) (by simp) i hi]
      simp

/-- **C17 (intersection multiplicities).**  In `U & V` every common knot has the smaller of the two multiplicities. -/
theorem C17_inter_mult (a b k : KV) (h : a.inter b = .ok k)
    (ks : List Rat) (hks : ks = isort ((dedup a.knots).filter fun x => b.knots.any (· == x)))
    (hnd : ks.Nodup) (i : Nat) (hi : i < ks.length) :
    cnt k.v (ks[i]) = min (a.multSingle (ks[i])) (b.multSingle (ks[i])) := by
  simp only [KV.inter] at h
  split at h
  · simp at h
  · obtain ⟨_, hv, _⟩ := mk?_ok _ _ h
    subst hks
    rw [hv, cnt_isort]
    rw [cnt_replicateKnots _ _ hnd (by simp) i hi]
    simp

/-! non-vacuity / instances (different degrees, shared interior knot: the witness of the repaired defect D3) -/
example : (KV.union ⟨[0, 0, mkRat 1 2, 1, 1], 1⟩ ⟨[0, 0, 0, mkRat 1 3, 1, 1, 1], 2⟩)
    = .ok ⟨[0, 0, 0, mkRat 1 3, mkRat 1 2, mkRat 1 2, 1, 1, 1], 2⟩ := by decide +kernel

example : (KV.union ⟨[0, 0, 0, mkRat 1 3, 1, 1, 1], 2⟩ ⟨[0, 0, mkRat 1 2, 1, 1], 1⟩)
    = .ok ⟨[0, 0, 0, mkRat 1 3, mkRat 1 2, mkRat 1 2, 1, 1, 1], 2⟩ := by decide +kernel

end NV
