/-
Props/C04Reject.lean — property C04, the rejection clause for excess multiplicity: a request after which some value
would occur more than `degree + 1` times is refused with ValueError (and, the model being a value model, the curve is
what it was).  No hypothesis on the curve or on the other nodes is needed.
-/
import NurbsVerif.Props.C04

namespace NV

theorem C04_excess_rejected (c : Curve) (nodes : List Rat) (x : Rat) (hx : x ∈ nodes)
    (hcnt : c.kv.deg + 1 < cnt (c.kv.v ++ nodes) x) : c.knotInsert nodes = .error .value := by
  unfold Curve.knotInsert
  simp only [bind, Except.bind]
  cases hins : c.kv.insert nodes with
  | error e =>
    simp only []
    unfold KV.insert at hins
    split at hins
    · simp only [Except.error.injEq] at hins; rw [← hins]
    · rw [mk?_error _ e hins]
  | ok newk =>
    simp only []
    by_cases hd : (newk.deg != c.kv.deg) = true
    · rw [if_pos hd]; rfl
    · exfalso
      have hdeg : newk.deg = c.kv.deg := by simpa using hd
      unfold KV.insert at hins
      split at hins
      · cases hins
      · obtain ⟨hval, hv, hdg⟩ := mk?_ok _ newk hins
        have hwf := isValid_WF_exact newk.v (by rw [hv]; exact hval)
        have hxin : x ∈ newk.v := by rw [hv, mem_isort, List.mem_append]; exact Or.inr hx
        have hle := hwf.mult_le x hxin
        rw [← hv] at hdg
        rw [← hdg, hdeg, hv, cnt_isort] at hle
        omega

end NV
