import NurbsVerif.Model.Basic
import NurbsVerif.Model.KV
import NurbsVerif.Model.Basis
import NurbsVerif.Model.Linalg
import NurbsVerif.Model.Quad
import NurbsVerif.Model.Ops
import NurbsVerif.Spec.CdB
import NurbsVerif.Model.LSQ
